//! Census family: entry points added from the unwrap/expect/unreachable!/panic! census of the anchored crates
//! (argument tables, resolver-driven SD-JWT VC calls, key storage with hostile JWKs), and the hostile-size
//! family, which runs in a child process (re-exec of this binary with a hidden argument, RLIMIT_AS +
//! RLIMIT_CPU) so that an abort / stack overflow / non-termination is reported with its input and never kills
//! the run.

use crate::strings::{sw, Sweep, A_DID};
use crate::{bb, es, st, Case, Entry, In, Local, Out};
use async_trait::async_trait;
use identity_core::common::{StringOrUrl, Timestamp, Url};
use identity_core::convert::{FromJson, ToJson};
use identity_credential::credential::{RevocationBitmapStatus, Status};
use identity_credential::sd_jwt_vc::{Resolver, SdJwtVc};
use identity_did::{DIDUrl, DID};
use identity_document::document::CoreDocument;
use identity_jose::jwk::Jwk;
use identity_jose::jws::JwsAlgorithm;
use identity_storage::{JwkDocumentExt, JwkMemStore, JwkStorage, JwsSignatureOptions, KeyIdMemstore, KeyType, Storage};
use identity_verification::MethodScope;
use std::io::Write;
use std::process::{Command, Stdio};
use std::time::{Duration, Instant};
use vx::rayon::prelude::*;
use vx::{json, Ctx};

pub const HOSTILE_PREFIX: &str = "hostile/";
pub const CHILD_ARG: &str = "--c05-child";

// ------------------------------------------------------------------------------------------------ resolvers
#[derive(Clone, Copy)]
pub enum Mode {
  NotFound,
  Garbage,
  Fixed,
  Generic,
  WrongType,
  /// type metadata without schema and without `extends`; schema `true`
  Minimal,
  /// type metadata that references its schema by URI (no `extends`); the schema demands `name`
  SchemaByUri,
  /// type metadata whose embedded schema is not a schema; schema documents that are not schemas
  HostileSchema,
  /// type metadata that extends another type and has NO schema of its own
  ExtendsOnly,
}
pub const ALL_MODES: [Mode; 9] = [Mode::NotFound, Mode::Garbage, Mode::Fixed, Mode::Generic, Mode::WrongType, Mode::Minimal, Mode::SchemaByUri, Mode::HostileSchema, Mode::ExtendsOnly];
pub struct HostileResolver(pub Mode);
#[async_trait]
impl Resolver<Url, serde_json::Value> for HostileResolver {
  async fn resolve(&self, input: &Url) -> Result<serde_json::Value, identity_credential::sd_jwt_vc::resolver::Error> {
    let b = answer(self.0, input.as_str())?;
    serde_json::from_slice(&b).map_err(|e| identity_credential::sd_jwt_vc::resolver::Error::ParsingFailure(e.into()))
  }
}
struct R(Mode);
fn fixed_answer(input: &str) -> Vec<u8> {
  if input.contains("jwt-vc-issuer") {
    format!(r#"{{"issuer":"https://example.com/issuer","jwks":{{"keys":[{}]}}}}"#, {
      let mut k = crate::tokens::ISSUER_KEY.public_with_alg("EdDSA");
      k.set_kid("k");
      k.to_json().unwrap()
    })
    .into_bytes()
  } else if input.contains("schema") {
    br#"{"type":"object"}"#.to_vec()
  } else if input.contains("vct") || input.contains("credential") {
    crate::json::SEED_TYPE_METADATA.as_bytes().to_vec()
  } else {
    crate::tokens::ISSUER_KEY.public_with_alg("EdDSA").to_json().unwrap().into_bytes()
  }
}
fn answer(mode: Mode, input: &str) -> Result<Vec<u8>, identity_credential::sd_jwt_vc::resolver::Error> {
  use identity_credential::sd_jwt_vc::resolver::Error as E;
  match mode {
    Mode::NotFound => Err(E::NotFound(input.to_string())),
    Mode::Generic => Err(E::Generic(anyhow::anyhow!("boom"))),
    Mode::Garbage => Ok(b"\xff{not json".to_vec()),
    Mode::WrongType => Ok(b"[1,2,3]".to_vec()),
    Mode::Fixed => Ok(fixed_answer(input)),
    Mode::Minimal | Mode::SchemaByUri | Mode::HostileSchema | Mode::ExtendsOnly => {
      let wants_schema = input.contains("schema");
      let wants_type = !wants_schema && (input.contains("vct") || input.contains("credential") || input.contains("type"));
      if !wants_schema && !wants_type {
        return Ok(fixed_answer(input));
      }
      let text: &str = match (mode, wants_schema) {
        (Mode::Minimal, true) => "true",
        (Mode::Minimal, false) => r#"{"vct":"https://example.com/c"}"#,
        (Mode::SchemaByUri, true) => r#"{"type":"object","required":["name"],"properties":{"name":{"type":"string"}}}"#,
        (Mode::SchemaByUri, false) => crate::json::SEED_TYPE_METADATA_URI,
        (Mode::HostileSchema, true) => r##"{"type":5,"$ref":"#/nowhere","properties":[],"required":"name","pattern":"(","$schema":7}"##,
        (Mode::HostileSchema, false) => r##"{"vct":"x","schema":{"$ref":"https://example.com/schema.json","type":[],"items":[{"$ref":"#"}],"minimum":"a"}}"##,
        (_, true) => r#"{"type":"object"}"#,
        (_, false) => r#"{"vct":"https://example.com/c","extends":"https://example.com/other-credential-type"}"#,
      };
      Ok(text.as_bytes().to_vec())
    }
  }
}
#[async_trait]
impl Resolver<Url, Vec<u8>> for R {
  async fn resolve(&self, input: &Url) -> Result<Vec<u8>, identity_credential::sd_jwt_vc::resolver::Error> {
    answer(self.0, input.as_str())
  }
}
#[async_trait]
impl Resolver<StringOrUrl, Vec<u8>> for R {
  async fn resolve(&self, input: &StringOrUrl) -> Result<Vec<u8>, identity_credential::sd_jwt_vc::resolver::Error> {
    answer(self.0, input.as_ref())
  }
}
#[async_trait]
impl Resolver<Url, serde_json::Value> for R {
  async fn resolve(&self, input: &Url) -> Result<serde_json::Value, identity_credential::sd_jwt_vc::resolver::Error> {
    let b = answer(self.0, input.as_str())?;
    serde_json::from_slice(&b).map_err(|e| identity_credential::sd_jwt_vc::resolver::Error::ParsingFailure(e.into()))
  }
}

/// `issuer_metadata`, `issuer_jwk`, `type_metadata`, `validate` with a resolver that answers NotFound /
/// garbage / a fixed well-formed document / a generic error / JSON of the wrong shape.
pub fn sd_jwt_vc_with_resolvers(vc: &SdJwtVc) {
  use futures::executor::block_on;
  let h = identity_credential::sd_jwt_v2::Sha256Hasher::new();
  for mode in ALL_MODES {
    let r = R(mode);
    st("SdJwtVc::issuer_metadata");
    if let Ok(Some(m)) = block_on(vc.issuer_metadata(&r)) {
      st("SdJwtVc::issuer_metadata>validate");
      bb(m.validate(vc).is_ok());
    }
    st("SdJwtVc::issuer_jwk");
    bb(block_on(vc.issuer_jwk(&r)).is_ok());
    st("SdJwtVc::type_metadata");
    if let Ok((t, raw)) = block_on(vc.type_metadata(&r)) {
      st("SdJwtVc::type_metadata>validate_credential_with_resolver");
      bb(raw.len());
      bb(block_on(t.validate_credential_with_resolver(&json!({"vct": "x", "name": "n"}), &r)).is_ok());
    }
    st("SdJwtVc::validate");
    bb(block_on(vc.validate(&r, &vx::fx::RealVerifier, &h)).is_ok());
    bb(block_on(vc.validate(&r, &vx::fx::AlwaysOk, &h)).is_ok());
  }
}

// ------------------------------------------------------------------------------------------------ entries
fn e_sd_jwt_vc_parse(s: &str) -> Out {
  // (registered by the strings module under the same name: this is the table-driven variant)
  match SdJwtVc::parse(s) {
    Err(_) => "rej",
    Ok(vc) => {
      crate::tokens::sd_jwt_vc_accessors(&vc);
      "accepted"
    }
  }
}

fn e_revocation_bitmap_status_new(s: &str) -> Out {
  let Ok(id) = DIDUrl::parse(s) else { return "rej:did-url" };
  let mut n = 0;
  for index in [0u32, 5, u32::MAX] {
    st("new");
    let r = RevocationBitmapStatus::new(id.clone(), index);
    st("new>id/index");
    bb((r.id().is_ok(), r.index().ok()));
    st("new>Status::from>try_from");
    let status: Status = r.into();
    if RevocationBitmapStatus::try_from(status.clone()).is_ok() {
      n += 1;
    }
    crate::json::status_accessors(&status);
  }
  if n == 3 {
    "accepted"
  } else {
    "accepted:not-round-trippable"
  }
}

fn e_timestamp_from_unix(s: &str) -> Out {
  let Ok(n) = s.parse::<i64>() else { return "rej:descriptor" };
  match Timestamp::from_unix(n) {
    Err(_) => "rej",
    Ok(t) => {
      crate::strings::timestamp_accessors(&t);
      "accepted"
    }
  }
}

/// input = a JWK (JSON). insert -> sign -> exists -> delete on a fresh in-memory store, plus `generate`.
fn e_memstore(s: &str) -> Out {
  use futures::executor::block_on;
  let Ok(jwk) = Jwk::from_json(s) else { return "rej:jwk" };
  let store = JwkMemStore::new();
  st("insert");
  match block_on(store.insert(jwk.clone())) {
    Err(_) => "rej:insert",
    Ok(id) => {
      let mut signed = false;
      for pk in [jwk.to_public(), Some(jwk.clone()), Some(crate::tokens::ISSUER_KEY.public_with_alg("EdDSA")), Some(crate::tokens::ISSUER_KEY.public.clone())].into_iter().flatten() {
        st("sign");
        signed |= block_on(store.sign(&id, b"message", &pk)).is_ok();
      }
      st("exists/delete");
      bb((block_on(store.exists(&id)).is_ok(), block_on(store.delete(&id)).is_ok(), block_on(store.delete(&id)).is_ok(), block_on(store.count())));
      if signed {
        "accepted:signed"
      } else {
        "accepted:inserted-only"
      }
    }
  }
}

/// input = `key_type|alg|fragment|scope-index`: generate_method + create_jws on a document with in-memory storage.
fn e_generate_method(s: &str) -> Out {
  use futures::executor::block_on;
  let p: Vec<&str> = s.splitn(4, '|').collect();
  if p.len() != 4 {
    return "rej:descriptor";
  }
  let Ok(alg) = p[1].parse::<JwsAlgorithm>() else { return "rej:alg" };
  let fragment = if p[2] == "<none>" { None } else { Some(p[2]) };
  let scope = match p[3] {
    "0" => MethodScope::VerificationMethod,
    "1" => MethodScope::authentication(),
    _ => MethodScope::key_agreement(),
  };
  let storage: Storage<JwkMemStore, KeyIdMemstore> = Storage::new(JwkMemStore::new(), KeyIdMemstore::new());
  let Ok(mut doc) = CoreDocument::from_json(crate::json::SEED_CORE_DOC) else { return "rej:seed-document(not judged)" };
  st("generate_method");
  match block_on(doc.generate_method(&storage, KeyType::new(p[0]), alg, fragment, scope)) {
    Err(_) => "rej",
    Ok(frag) => {
      st("generate_method>create_jws");
      for f in [frag.as_str(), &format!("#{frag}"), p[2], "", "#", "did:example:123#k"] {
        if let Ok(jws) = block_on(doc.create_jws(&storage, f, b"payload", &JwsSignatureOptions::default())) {
          st("generate_method>create_jws>verify_jws");
          bb(doc.verify_jws(jws.as_str(), None, &vx::fx::RealVerifier, &Default::default()).is_ok());
          st("generate_method>create_jws");
        }
      }
      st("generate_method>to_json");
      bb(doc.to_json().is_ok());
      st("generate_method>purge_method");
      if let Ok(id) = doc.id().to_url().join(format!("#{frag}")) {
        bb(block_on(doc.purge_method(&storage, &id)).is_ok());
      }
      "accepted"
    }
  }
}

/// One `Status` given as JSON text: `Status::from_json`, its accessors, and the validator path that consumes it
/// (`check_status` against the fixture issuer document, `check_status_with_status_list_2021` against the fixture list).
fn status_json_through_validators(json_text: &str) -> u8 {
  st("Status::from_json");
  let Ok(status) = Status::from_json(json_text) else { return 0 };
  crate::json::status_accessors(&status);
  let mut level = 1;
  if RevocationBitmapStatus::try_from(status.clone()).is_ok() || identity_credential::revocation::status_list_2021::StatusList2021Entry::try_from(&status).is_ok() {
    level = 2;
  }
  st("check_status(credential with this status)");
  let cred = crate::binary::status_credential(status);
  for sc in [identity_credential::validator::StatusCheck::Strict, identity_credential::validator::StatusCheck::SkipUnsupported] {
    bb(identity_credential::validator::JwtCredentialValidatorUtils::check_status(&cred, std::slice::from_ref(&*crate::tokens::ISSUER_DOC), sc).is_ok());
  }
  if identity_credential::validator::JwtCredentialValidatorUtils::check_status(&cred, std::slice::from_ref(&*crate::tokens::ISSUER_DOC), identity_credential::validator::StatusCheck::Strict).is_ok() {
    level = 3;
  }
  st("check_status_with_status_list_2021(credential with this status)");
  if identity_credential::validator::JwtCredentialValidatorUtils::check_status_with_status_list_2021(&cred, crate::json::status_list_cred(), identity_credential::validator::StatusCheck::Strict).is_ok() {
    level = 3;
  }
  level
}
fn status_label(level: u8) -> Out {
  match level {
    0 => "rej:status-json",
    1 => "accepted:status-only(typed status rejected)",
    2 => "accepted:typed-status(status check failed)",
    _ => "accepted:status-check-passed",
  }
}
fn js(s: &str) -> String {
  serde_json::to_string(s).unwrap_or_else(|_| "\"\"".into())
}
/// input = the text of an index: used as the value of the `index` query of the status id AND/OR as the
/// `revocationBitmapIndex` property (all three combinations with the benign value `5`).
fn e_rb_status_index(s: &str) -> Out {
  let mut level = 0;
  for (q, p) in [(s, s), (s, "5"), ("5", s)] {
    let id = format!("did:example:123?index={q}#rev");
    level = level.max(status_json_through_validators(&format!(r#"{{"id":{},"type":"RevocationBitmap2022","revocationBitmapIndex":{}}}"#, js(&id), js(p))));
  }
  status_label(level)
}
/// input = the whole query of the status id (`did:example:123?<input>#rev`), property `revocationBitmapIndex` = "5"
fn e_rb_status_query(s: &str) -> Out {
  let id = format!("did:example:123?{s}#rev");
  let a = status_json_through_validators(&format!(r#"{{"id":{},"type":"RevocationBitmap2022","revocationBitmapIndex":"5"}}"#, js(&id)));
  // the same id without the property, and with a non-string property
  let b = status_json_through_validators(&format!(r#"{{"id":{},"type":"RevocationBitmap2022"}}"#, js(&id)));
  let c = status_json_through_validators(&format!(r#"{{"id":{},"type":"RevocationBitmap2022","revocationBitmapIndex":5}}"#, js(&id)));
  status_label(a.max(b).max(c))
}
/// input = the text of `statusListIndex`, as a JSON string and (when it is a JSON number token) as a number
fn e_sl_entry_index(s: &str) -> Out {
  let mut level = 0;
  let mut forms = vec![js(s)];
  if matches!(serde_json::from_str::<serde_json::Value>(s), Ok(serde_json::Value::Number(_))) {
    forms.push(s.to_string());
  }
  for f in forms {
    let text = format!(r##"{{"id":"https://example.com/credentials/status/3#94567","type":"StatusList2021Entry","statusPurpose":"revocation","statusListIndex":{f},"statusListCredential":"https://example.com/credentials/status/3"}}"##);
    st("StatusList2021Entry::from_json");
    if let Ok(e) = identity_credential::revocation::status_list_2021::StatusList2021Entry::from_json(&text) {
      crate::json::entry_accessors(&e);
      st("StatusList2021Credential::entry(index of the entry)");
      bb(crate::json::status_list_cred().entry(e.index()).is_ok());
    }
    level = level.max(status_json_through_validators(&text));
  }
  status_label(level)
}

/// input = a DID string: parsed as `CoreDID`, then resolved through an `identity_resolver::Resolver` whose handlers
/// take other DID types (the resolver converts by re-parsing the string): `did:jwk` -> the built-in handler
/// (`CoreDocument::expand_did_jwk` of the embedded, externally supplied JWK), `did:iota` -> a handler over
/// `IotaDID`, `did:example` -> a handler over `CoreDID`, anything else -> no handler.
fn e_resolver(s: &str) -> Out {
  use futures::executor::block_on;
  use identity_did::CoreDID;
  use identity_iota_core::{IotaDID, IotaDocument};
  let Ok(did) = CoreDID::parse(s) else { return "rej:did" };
  let mut r = identity_resolver::SingleThreadedResolver::<CoreDocument>::new();
  r.attach_did_jwk_handler();
  r.attach_handler("iota".to_owned(), |d: IotaDID| async move { Ok::<CoreDocument, std::io::Error>(CoreDocument::from(IotaDocument::new_with_id(d))) });
  r.attach_handler("example".to_owned(), |d: CoreDID| async move {
    if d.method_id().len() % 2 == 0 {
      CoreDocument::builder(Default::default()).id(d).build().map_err(|e| std::io::Error::new(std::io::ErrorKind::Other, e.to_string()))
    } else {
      Err(std::io::Error::new(std::io::ErrorKind::NotFound, "no such document"))
    }
  });
  // the Send + Sync flavour of the resolver has its own copy of the conversion code
  {
    let mut r = identity_resolver::Resolver::<CoreDocument>::new();
    r.attach_did_jwk_handler();
    r.attach_handler("iota".to_owned(), |d: IotaDID| async move { Ok::<CoreDocument, std::io::Error>(CoreDocument::from(IotaDocument::new_with_id(d))) });
    r.attach_handler("example".to_owned(), |d: CoreDID| async move { CoreDocument::builder(Default::default()).id(d).build().map_err(|e| std::io::Error::new(std::io::ErrorKind::Other, e.to_string())) });
    st("Resolver(Send+Sync)::resolve");
    bb(block_on(r.resolve(&did)).is_ok());
    st("Resolver(Send+Sync)::resolve_multiple");
    bb(block_on(r.resolve_multiple(&[did.clone()])).is_ok());
  }
  st("Resolver::resolve");
  let one = block_on(r.resolve(&did));
  if let Err(e) = &one {
    st("Resolver::resolve>error Display/Debug");
    bb((e.to_string().len(), format!("{e:?}").len(), format!("{:?}", e.error_cause()).len()));
  }
  st("Resolver::resolve_multiple");
  let other = CoreDID::parse("did:example:ab").unwrap();
  let many = block_on(r.resolve_multiple(&[did.clone(), other, did.clone()]));
  bb(many.as_ref().map(|m| m.len()).ok());
  match one {
    Ok(doc) => {
      st("Resolver::resolve>document");
      bb((doc.id().to_string(), doc.to_json().is_ok(), doc.methods(None).len()));
      for m in doc.methods(None) {
        crate::json::method_accessors(m);
      }
      "accepted:resolved"
    }
    Err(_) => "rej:resolution",
  }
}

// ------------------------------------------------------------------------------------------------ jsonprooftoken::Jwk <-> Jwk
const JPT_CURVES: [jsonprooftoken::jwk::curves::EllipticCurveTypes; 12] = {
  use jsonprooftoken::jwk::curves::EllipticCurveTypes::*;
  [P256, P384, P521, Ed25519, Ed448, X25519, X448, Secp256K1, BLS12381G1, BLS12381G2, BLS48581G1, BLS48581G2]
};
/// Follow-ups of a `jsonprooftoken` JWK that json-proof-token itself produced (deserialised or constructed):
/// the conversion into `identity_jose::jwk::Jwk`, every accessor of the result, the reverse conversion and the
/// conversion of THAT back again.
fn jpt_jwk_followups(ext: jsonprooftoken::jwk::key::Jwk) -> Out {
  use jsonprooftoken::jwk::key::Jwk as JwkExt;
  // (no stage before the conversion: a panic inside it is keyed by the entry point alone)
  match Jwk::try_from(ext.clone()) {
    Err(e) => {
      st("error Display/Debug");
      bb((e.to_string().len(), format!("{e:?}").len()));
      "rej:conversion"
    }
    Ok(jwk) => {
      crate::json::jwk_accessors(&jwk);
      st("TryInto<jsonprooftoken::Jwk>(&Jwk)");
      let back: Result<JwkExt, _> = (&jwk).try_into();
      match back {
        Ok(b) => {
          st("TryInto<jsonprooftoken::Jwk>(&Jwk)>accessors");
          bb((b == ext, b.is_public(), b.is_private(), serde_json::to_string(&b).map(|t| t.len()).ok(), format!("{b:?}").len()));
          st("TryInto<jsonprooftoken::Jwk>(&Jwk)>to_public>Jwk::try_from");
          if let Some(p) = b.to_public() {
            bb(Jwk::try_from(p).is_ok());
          }
          st("TryInto<jsonprooftoken::Jwk>(&Jwk)>Jwk::try_from");
          bb(Jwk::try_from(b).map(|j| j == jwk).ok());
          "accepted:round-trip"
        }
        Err(_) => "accepted:one-way",
      }
    }
  }
}
const JPT_CTOR: &str = "built with the constructors of json-proof-token:";
/// input = either the JSON text of a JWK (deserialised by json-proof-token) or a constructor descriptor
/// `built with the constructors of json-proof-token:<ec|okp>:<curve index>:<d: 0|1>:<plain|public|members>` / `…:generate:<0|1>`
/// (the descriptor is deliberately longer than the smallest JSON witness, so that a reported witness is a JSON key).
fn e_jpt_jwk(s: &str) -> Out {
  use jsonprooftoken::jpa::algs::ProofAlgorithm;
  use jsonprooftoken::jwk::alg_parameters::{Algorithm, JwkAlgorithmParameters, JwkEllipticCurveKeyParameters, JwkOctetKeyPairParameters};
  use jsonprooftoken::jwk::key::{Jwk as JwkExt, KeyOps, PKUse};
  use jsonprooftoken::jwk::types::KeyPairSubtype;
  if let Some(d) = s.strip_prefix(JPT_CTOR) {
    let p: Vec<&str> = d.split(':').collect();
    if p.len() == 2 && p[0] == "generate" {
      // (a random BLS key pair: an opaque handle, the outcome does not depend on its value)
      let Ok(k) = JwkExt::generate(if p[1] == "0" { KeyPairSubtype::BLS12381G2Sha256 } else { KeyPairSubtype::BLS12381G2Shake256 }) else { return "rej:constructor" };
      bb(jpt_jwk_followups(k.to_public().unwrap_or_else(|| k.clone())));
      return jpt_jwk_followups(k);
    }
    if p.len() != 4 {
      return "rej:descriptor";
    }
    let Some(crv) = p[1].parse::<usize>().ok().and_then(|i| JPT_CURVES.get(i)).cloned() else { return "rej:descriptor" };
    let (x, y, sk) = ([7u8; 32], [9u8; 32], [5u8; 32]);
    let params = match p[0] {
      "ec" => JwkAlgorithmParameters::EllipticCurve(JwkEllipticCurveKeyParameters::new(crv, &x, &y, if p[2] == "1" { Some(&sk) } else { None })),
      _ => JwkAlgorithmParameters::OctetKeyPair(JwkOctetKeyPairParameters::new(crv, &x[..], if p[2] == "1" { Some(&sk[..]) } else { None })),
    };
    let mut k = JwkExt::from_key_params(params);
    match p[3] {
      "public" => {
        // (json-proof-token's `to_public` of an EC key keeps the EC shape and labels it kty OKP)
        let Some(pk) = k.to_public() else { return "rej:constructor" };
        k = pk;
      }
      "members" => {
        k.set_kid("kid-1");
        k.set_pk_use(PKUse::Proof);
        k.set_key_ops(vec![KeyOps::ProofGeneration, KeyOps::ProofVerification, KeyOps::Sign, KeyOps::DeriveBits]);
        k.set_alg(Algorithm::Proof(ProofAlgorithm::BLS12381_SHA256));
        k.set_x5u("https://example.com/x5u");
        k.set_x5c(vec!["MIIB"]);
        k.set_x5t("dGh1bWI");
      }
      _ => {}
    }
    return jpt_jwk_followups(k);
  }
  match serde_json::from_str::<JwkExt>(s) {
    Err(_) => "rej:json-proof-token-json",
    Ok(k) => jpt_jwk_followups(k),
  }
}
/// input = the JSON text of a JWK for `identity_jose::jwk::Jwk`: the conversion into json-proof-token's type and back.
fn e_jwk_into_jpt(s: &str) -> Out {
  use jsonprooftoken::jwk::key::Jwk as JwkExt;
  let Ok(jwk) = Jwk::from_json(s) else { return "rej:jwk-json" };
  let r: Result<JwkExt, _> = (&jwk).try_into();
  match r {
    Err(e) => {
      st("error Display/Debug");
      bb((e.to_string().len(), format!("{e:?}").len()));
      "rej:conversion"
    }
    Ok(ext) => {
      st("accessors");
      bb((ext.is_public(), ext.is_private(), serde_json::to_string(&ext).map(|t| t.len()).ok(), format!("{ext:?}").len(), ext.to_public().is_some()));
      st("Jwk::try_from(back)");
      match Jwk::try_from(ext) {
        Ok(j) => {
          crate::json::jwk_accessors(&j);
          if j == jwk {
            "accepted:round-trip-identical"
          } else {
            "accepted:round-trip-differs"
          }
        }
        Err(_) => "accepted:one-way",
      }
    }
  }
}

pub fn entries() -> Vec<Entry> {
  vec![
    es("Jwk::try_from(jsonprooftoken::Jwk)", e_jpt_jwk),
    es("TryInto<jsonprooftoken::Jwk>(&Jwk)", e_jwk_into_jpt),
    es("Resolver::resolve(DID string)", e_resolver),
    es("Status(RevocationBitmap2022)[index text]", e_rb_status_index),
    es("Status(RevocationBitmap2022)[id query]", e_rb_status_query),
    es("Status(StatusList2021Entry)[statusListIndex text]", e_sl_entry_index),
    es("SdJwtVc::parse[table]", e_sd_jwt_vc_parse),
    es("RevocationBitmapStatus::new(DIDUrl)", e_revocation_bitmap_status_new),
    es("Timestamp::from_unix", e_timestamp_from_unix),
    es("JwkMemStore::insert+sign", e_memstore),
    es("JwkDocumentExt::generate_method+create_jws", e_generate_method),
  ]
}

// ------------------------------------------------------------------------------------------------ hostile family
type HostileFn = fn(&str) -> Out;

fn arg_n(d: &str) -> usize {
  d.rsplit(':').next().and_then(|x| x.parse().ok()).unwrap_or(0)
}

/// Streams `n` zero bytes through `enc` without materialising them.
fn zeros<W: Write>(enc: &mut W, n: usize) {
  let block = vec![0u8; 1 << 20];
  let mut left = n;
  while left > 0 {
    let k = left.min(block.len());
    enc.write_all(&block[..k]).unwrap();
    left -= k;
  }
}

fn h_status_list_bomb(d: &str) -> Out {
  use identity_core::convert::{Base, BaseEncoding};
  use identity_credential::revocation::status_list_2021::StatusList2021;
  let mut e = vx::fx::gz_encoder();
  zeros(&mut e, arg_n(d));
  let s = BaseEncoding::encode(&e.finish().unwrap()[..], Base::Base64);
  eprintln!("input: {} bytes of base64", s.len());
  match StatusList2021::try_from_encoded_str(&s) {
    Err(_) => "rej",
    Ok(l) => {
      bb((l.len(), l.get(0).is_ok(), l.get(l.len().wrapping_sub(1)).is_ok()));
      "accepted"
    }
  }
}
fn h_bitmap_bomb(d: &str) -> Out {
  use identity_core::convert::{Base, BaseEncoding};
  let mut e = vx::fx::zlib_encoder();
  zeros(&mut e, arg_n(d));
  let direct = BaseEncoding::encode(&e.finish().unwrap()[..], Base::Base64Url);
  let legacy = BaseEncoding::encode(direct.as_bytes(), Base::Base64);
  eprintln!("input: {} bytes of base64", legacy.len());
  crate::entry("RevocationBitmap::try_from(Service)[data-url payload]");
  match &crate::entry("RevocationBitmap::try_from(Service)[data-url payload]").f {
    crate::F::S(f) => f(&legacy),
    _ => "rej",
  }
}
fn h_bitmap_full(d: &str) -> Out {
  // a genuine roaring bitmap with `n` full bitmap containers (2^16 bits each)
  let n = arg_n(d) as u32;
  let mut raw = Vec::new();
  raw.extend(12346u32.to_le_bytes());
  raw.extend(n.to_le_bytes());
  for k in 0..n {
    raw.extend((k as u16).to_le_bytes());
    raw.extend(0xFFFFu16.to_le_bytes());
  }
  for _ in 0..n {
    raw.extend(0u32.to_le_bytes());
  }
  let mut e = vx::fx::zlib_encoder();
  e.write_all(&raw).unwrap();
  let block = vec![0xFFu8; 8192];
  for _ in 0..n {
    e.write_all(&block).unwrap();
  }
  use identity_core::convert::{Base, BaseEncoding};
  let direct = BaseEncoding::encode(&e.finish().unwrap()[..], Base::Base64Url);
  let legacy = BaseEncoding::encode(direct.as_bytes(), Base::Base64);
  eprintln!("input: {} bytes of base64", legacy.len());
  match &crate::entry("RevocationBitmap::try_from(Service)[data-url payload]").f {
    crate::F::S(f) => f(&legacy),
    _ => "rej",
  }
}
fn h_nest(d: &str) -> Out {
  // `nest:<kind>:<depth>`
  let depth = arg_n(d);
  let kind = d.split(':').nth(1).unwrap_or("arr");
  let (open, close, leaf) = match kind {
    "arr" => ("[".to_string(), "]".to_string(), "1".to_string()),
    "obj" => ("{\"a\":".to_string(), "}".to_string(), "1".to_string()),
    "doc-prop" => ("{\"a\":".to_string(), "}".to_string(), "1".to_string()),
    _ => ("[".to_string(), "]".to_string(), "1".to_string()),
  };
  let mut inner = String::with_capacity(depth * (open.len() + close.len()) + 8);
  for _ in 0..depth {
    inner.push_str(&open);
  }
  inner.push_str(&leaf);
  for _ in 0..depth {
    inner.push_str(&close);
  }
  let text = if kind == "doc-prop" { format!(r#"{{"id":"did:example:123","p":{inner}}}"#) } else { inner };
  let mut acc = false;
  for name in ["CoreDocument::from_json", "Jwk::from_json", "Credential::from_json", "Presentation<Jwt>::from_json", "Service::from_json", "VerificationMethod::from_json", "Status::from_json", "StatusList2021Credential::from_json", "IotaDocument::from_json", "Decoder::decode_flattened_serialization", "Decoder::decode_general_serialization", "sd_jwt_vc metadata::from_json"] {
    if let crate::F::S(f) = &crate::entry(name).f {
      acc |= f(&text).starts_with("acc");
    }
  }
  // nested JSON inside a JWT payload and inside a disclosure
  let t = vx::fx::compact_ed(crate::tokens::CRED_HEADER, format!(r#"{{"iss":"did:example:123","nbf":1,"vc":{{"@context":"https://www.w3.org/2018/credentials/v1","type":["VerifiableCredential"],"credentialSubject":{{"x":{text}}}}}}}"#).as_bytes(), &crate::tokens::ISSUER_KEY);
  if let crate::F::S(f) = &crate::entry("JwtCredentialValidator::validate").f {
    acc |= f(&t).starts_with("acc");
  }
  let disc = vx::fx::b64(format!(r#"["salt","n",{text}]"#));
  for name in ["sd_jwt_payload(0.2)::SdJwt/Disclosure::parse", "sd_jwt_v2::SdJwt/Disclosure/KeyBindingJwt::parse"] {
    if let crate::F::S(f) = &crate::entry(name).f {
      acc |= f(&disc).starts_with("acc");
    }
  }
  if acc {
    "accepted"
  } else {
    "rej"
  }
}
fn h_long(d: &str) -> Out {
  // `long:<what>:<n>`
  let n = arg_n(d);
  let what = d.split(':').nth(1).unwrap_or("");
  let (entries, text): (&[&str], String) = match what {
    "did" => (&["CoreDID::parse", "DIDUrl::parse", "IotaDID::parse", "DIDJwk::parse", "CoreDID::set_method_id"], format!("did:example:{}", "a".repeat(n))),
    "did-colons" => (&["CoreDID::parse", "DIDUrl::parse", "IotaDID::parse"], format!("did:example:{}", "a:".repeat(n / 2) + "a")),
    "did-pct" => (&["CoreDID::parse", "DIDUrl::parse", "CoreDID::set_method_id"], format!("did:example:{}a", "%41".repeat(n / 3))),
    "did-url-query" => (&["DIDUrl::parse", "DIDUrl::join", "DIDUrl::set_query"], format!("did:example:a?{}", "a=b&".repeat(n / 4))),
    "timestamp-fraction" => (&["Timestamp::parse", "Timestamp::from_json"], format!("2023-11-14T22:13:20.{}Z", "9".repeat(n))),
    "url" => (&["Url::parse", "StringOrUrl::parse", "Url::join"], format!("https://example.com/{}", "a/".repeat(n / 2))),
    "b64" => (&["jwu::decode_b64(_json)", "BaseEncoding::decode", "decode_multibase/MethodData::try_decode", "StatusList2021::try_from_encoded_str", "RevocationBitmap::try_from(Service)[data-url payload]"], "A".repeat(n)),
    "base58" => (&["BaseEncoding::decode", "decode_multibase/MethodData::try_decode"], format!("z{}", "2".repeat(n))),
    "network" => (&["NetworkName::try_from"], "a".repeat(n)),
    "integrity" => (&["IntegrityMetadata::parse"], format!("sha256-{}-{}", "A".repeat(n / 4 * 4), "o".repeat(16))),
    "jws" => (&["Decoder::decode_compact_serialization", "JwtCredentialValidator::validate", "JwtPresentationValidator::validate"], {
      let payload = format!(r#"{{"iss":"did:example:123","nbf":1,"vc":{{"@context":"https://www.w3.org/2018/credentials/v1","type":["VerifiableCredential"],"credentialSubject":{{"x":"{}"}}}}}}"#, "a".repeat(n));
      vx::fx::compact_ed(crate::tokens::CRED_HEADER, payload.as_bytes(), &crate::tokens::ISSUER_KEY)
    }),
    "jws-dots" => (&["Decoder::decode_compact_serialization", "JwtCredentialValidator::validate"], ".".repeat(n)),
    "sd-jwt-tildes" => (&["sd_jwt_payload(0.2)::SdJwt/Disclosure::parse", "sd_jwt_v2::SdJwt/Disclosure/KeyBindingJwt::parse", "SdJwtCredentialValidator::validate_credential", "SdJwtCredentialValidator::validate_key_binding_jwt"], format!("{}{}", crate::tokens::SD_PARTS.0, "~".repeat(n))),
    "sd-jwt-disclosures" => (&["SdJwtCredentialValidator::validate_credential", "SdJwtCredentialValidator::validate_key_binding_jwt", "sd_jwt_payload(0.2)::SdJwt/Disclosure::parse"], format!("{}~{}", crate::tokens::SD_PARTS.0, format!("{}~", crate::tokens::SD_PARTS.1[0]).repeat(n))),
    _ => (&[], String::new()),
  };
  let mut acc = false;
  for name in entries {
    match &crate::entry(name).f {
      crate::F::S(f) => acc |= f(&text).starts_with("acc"),
      crate::F::B(f) => acc |= f(text.as_bytes()).starts_with("acc"),
    }
  }
  if acc {
    "accepted"
  } else {
    "rej"
  }
}
fn h_many(d: &str) -> Out {
  // `many:<what>:<n>`: documents with n members
  let n = arg_n(d);
  let what = d.split(':').nth(1).unwrap_or("");
  let (entries, text): (&[&str], String) = match what {
    "methods" => (&["CoreDocument::from_json"], {
      let ms: Vec<String> = (0..n).map(|i| format!(r##"{{"id":"did:example:123#k{i}","controller":"did:example:123","type":"T","publicKeyMultibase":"zH3C2AVvLMv6gmMNam3uVAjZpfkcJCwDwnZn6z3wXmqPV"}}"##)).collect();
      format!(r##"{{"id":"did:example:123","verificationMethod":[{}]}}"##, ms.join(","))
    }),
    "same-methods" => (&["CoreDocument::from_json"], {
      let m = r##"{"id":"did:example:123#k","controller":"did:example:123","type":"T","publicKeyMultibase":"zH3C2AVvLMv6gmMNam3uVAjZpfkcJCwDwnZn6z3wXmqPV"}"##;
      format!(r##"{{"id":"did:example:123","verificationMethod":[{}]}}"##, vec![m; n].join(","))
    }),
    "controllers" => (&["CoreDocument::from_json"], {
      let cs: Vec<String> = (0..n).map(|i| format!("\"did:example:c{i}\"")).collect();
      format!(r##"{{"id":"did:example:123","controller":[{}]}}"##, cs.join(","))
    }),
    "types" => (&["Credential::from_json"], {
      let ts: Vec<String> = (0..n).map(|i| format!("\"T{i}\"")).collect();
      format!(r##"{{"@context":"https://www.w3.org/2018/credentials/v1","type":["VerifiableCredential",{}],"credentialSubject":{{"id":"did:example:s"}},"issuer":"did:example:123","issuanceDate":"2010-01-01T19:23:24Z"}}"##, ts.join(","))
    }),
    "keys" => (&["JwkSet::from_json"], format!(r#"{{"keys":[{}]}}"#, vec![crate::json::SEED_JWK_OKP; n].join(","))),
    "dup-keys" => (&["CoreDocument::from_json", "Jwk::from_json", "Credential::from_json"], format!(r#"{{{}"id":"did:example:123"}}"#, r#""id":"did:example:1","#.repeat(n))),
    _ => (&[], String::new()),
  };
  let mut acc = false;
  for name in entries {
    if let crate::F::S(f) = &crate::entry(name).f {
      acc |= f(&text).starts_with("acc");
    }
  }
  if acc {
    "accepted"
  } else {
    "rej"
  }
}
/// `String::from(IotaDID)` / `DID::into_string` (census: mutual recursion between `From<IotaDID> for String`
/// and the default `DID::into_string`).
fn h_iota_did_into_string(d: &str) -> Out {
  use identity_did::DID;
  use identity_iota_core::IotaDID;
  let s = d.split_once(':').map(|x| x.1).unwrap_or("");
  let Ok(did) = IotaDID::parse(s) else { return "rej" };
  let a = String::from(did.clone());
  let b = did.into_string();
  bb((a.len(), b.len()));
  "accepted"
}

/// Machinery self-test generators (never part of the judged family): each ends the child in one well-defined way,
/// and the parent checks that it classifies that end correctly ON THIS MACHINE before it trusts the verdicts of the
/// real generators (e.g. an environment in which RLIMIT_AS cannot be lowered would make every bomb "return").
fn h_selftest(d: &str) -> Out {
  #[inline(never)]
  fn recurse(n: u64) -> u64 {
    let pad = [n; 16];
    if std::hint::black_box(n) == u64::MAX {
      return 0;
    }
    recurse(n + 1) + std::hint::black_box(pad)[3]
  }
  match d {
    "selftest:alloc-above-limit" => {
      let mut v: Vec<u8> = Vec::with_capacity(std::hint::black_box((AS_LIMIT + (1 << 30)) as usize));
      v.push(std::hint::black_box(1));
      bb((v.as_ptr(), v.capacity(), v[0]));
      "returned-with-an-allocation-above-the-limit"
    }
    "selftest:stack" => {
      bb(recurse(0));
      "returned-from-unbounded-recursion"
    }
    "selftest:killed" => {
      unsafe { libc::raise(libc::SIGKILL) };
      "returned-after-SIGKILL"
    }
    "selftest:spin" => {
      let mut x = 0u64;
      loop {
        x = std::hint::black_box(x.wrapping_mul(6364136223846793005).wrapping_add(1));
      }
    }
    _ => "selftest-ok",
  }
}
const SELFTEST: &str = "hostile/selftest";

const HOSTILE: &[(&str, HostileFn)] = &[
  ("hostile/StatusList2021::try_from_encoded_str(gzip bomb)", h_status_list_bomb),
  ("hostile/RevocationBitmap::try_from(Service)(zlib bomb)", h_bitmap_bomb),
  ("hostile/RevocationBitmap::try_from(Service)(full bitmap)", h_bitmap_full),
  ("hostile/from_json(deep nesting)", h_nest),
  ("hostile/parsers(long input)", h_long),
  ("hostile/from_json(many members)", h_many),
  ("hostile/IotaDID::into_string", h_iota_did_into_string),
  (SELFTEST, h_selftest),
];

const AS_LIMIT: u64 = 4 << 30; // 4 GiB address space
/// CPU limit of a child: small inputs (non-termination probe) / large inputs
const CPU_LIMIT_SMALL_S: u64 = 5;
const CPU_LIMIT_LARGE_S: u64 = 40;
const WALL_LIMIT_S: u64 = 240;
/// stack of the thread that runs the subject in the child (= the Linux default for a main thread)
const CHILD_STACK: usize = 8 << 20;
/// an allocation failure is attributed to RLIMIT_AS when (address space in use + failed request) comes at least
/// this close to the limit
const AS_SLACK: u64 = 256 << 20;
/// inputs below this size that exhaust the CPU limit are judged as non-termination
const SMALL_INPUT: usize = 4096;

/// Child mode: `c05 --c05-child <entry> <descriptor>`. Exit codes: 0 returned (label on stdout), 3 unwound
/// (panic key on stdout); anything else (signal, 101, 134 ...) is an abort and is judged by the parent.
pub fn child_main(args: &[String]) -> ! {
  if args.len() != 3 {
    eprintln!("child: bad arguments");
    std::process::exit(2);
  }
  let cpu: u64 = args[2].parse().unwrap_or(CPU_LIMIT_LARGE_S);
  unsafe {
    let lim = libc::rlimit { rlim_cur: AS_LIMIT, rlim_max: AS_LIMIT };
    libc::setrlimit(libc::RLIMIT_AS, &lim);
    let lim = libc::rlimit { rlim_cur: cpu, rlim_max: cpu + 2 };
    libc::setrlimit(libc::RLIMIT_CPU, &lim);
    let lim = libc::rlimit { rlim_cur: 0, rlim_max: 0 };
    libc::setrlimit(libc::RLIMIT_CORE, &lim);
  }
  vx::guard::install_hook();
  vx::fx::install_clock();
  let Some((_, f)) = HOSTILE.iter().find(|(n, _)| *n == args[0]) else {
    eprintln!("child: unknown hostile entry {}", args[0]);
    std::process::exit(2);
  };
  let d = args[1].clone();
  let f = *f;
  // The subject runs on a thread with an EXPLICIT stack (the Linux default of 8 MiB), so that a stack-overflow
  // verdict does not depend on the `ulimit -s` of the shell that started the check.
  let worker = std::thread::Builder::new().name("c05-hostile".into()).stack_size(CHILD_STACK).spawn(move || {
    crate::st("");
    vx::guard(|| f(&d))
  });
  let worker = match worker {
    Ok(w) => w,
    Err(e) => {
      eprintln!("child: cannot spawn the worker thread: {e}");
      std::process::exit(2);
    }
  };
  match worker.join() {
    Ok(Ok(label)) => {
      println!("OK {label}");
      std::process::exit(0)
    }
    Ok(Err(p)) => {
      if crate::harness_panic(&p) {
        eprintln!("child: harness panicked: {} @ {}", p.msg, p.loc);
        std::process::exit(2);
      }
      println!("PANIC {}\t{} @ {}", crate::pkey(&p), p.msg, p.loc);
      std::process::exit(3)
    }
    Err(_) => {
      eprintln!("child: worker thread ended abnormally outside the guard");
      std::process::exit(2);
    }
  }
}

enum ChildResult {
  Returned(String),
  Panicked(String, String),
  Aborted(String, String),
  /// SIGXCPU: the child used up its RLIMIT_CPU (CPU time, not wall time: independent of the load of the machine)
  CpuTimeout,
  WallTimeout,
  /// ended in a way that the input cannot be blamed for with certainty (killed from outside — OOM killer, operator —,
  /// allocation failure far below RLIMIT_AS): recorded, never judged
  NotAttributable(String),
  Machinery(String),
}

/// `c05-alloc-failure size=<n> vsize=<m>` lines written by the child's allocator (see `DiagAlloc`): the last one
/// belongs to the allocation that made std abort.
fn last_alloc_failure(err: &str) -> Option<(u64, u64)> {
  let l = err.lines().rev().find(|l| l.starts_with("c05-alloc-failure "))?;
  let mut size = None;
  let mut vsize = None;
  for w in l.split_whitespace() {
    if let Some(v) = w.strip_prefix("size=") {
      size = v.parse().ok();
    }
    if let Some(v) = w.strip_prefix("vsize=") {
      vsize = v.parse().ok();
    }
  }
  Some((size?, vsize?))
}

/// Only descriptors that ARE the input (no generator parameter) count as small inputs.
fn is_small(d: &str) -> bool {
  (d.starts_with("did:") && d.len() <= SMALL_INPUT) || d == "selftest:spin"
}

/// Runs the self-test children and requires the expected classification of each.
fn machinery_selftest(ctx: &Ctx) {
  let mut tests: Vec<(&str, &str)> = vec![("selftest:ok", "returned"), ("selftest:alloc-above-limit", "aborted:allocation-failure"), ("selftest:stack", "aborted:stack-overflow-or-segv"), ("selftest:killed", "not-attributable:killed-from-outside")];
  if ctx.thorough() {
    tests.push(("selftest:spin", "cpu-limit"));
  }
  let got: Vec<(String, String, String)> = tests
    .par_iter()
    .map(|(d, want)| {
      let r = match run_child(SELFTEST, d) {
        ChildResult::Returned(l) => format!("returned:{l}"),
        ChildResult::Panicked(k, _) => format!("panicked:{k}"),
        ChildResult::Aborted(c, _) => format!("aborted:{c}"),
        ChildResult::CpuTimeout => "cpu-limit".to_string(),
        ChildResult::WallTimeout => "wall-limit".to_string(),
        ChildResult::NotAttributable(w) => format!("not-attributable:{w}"),
        ChildResult::Machinery(m) => format!("machinery:{m}"),
      };
      (d.to_string(), want.to_string(), r)
    })
    .collect();
  for (d, want, r) in &got {
    ctx.require(r.starts_with(want.as_str()), &format!("hostile-family self-test {d}: the child ended as `{r}`, expected `{want}*` — the abort/limit verdicts of this family cannot be trusted on this machine"));
  }
  ctx.part("census: hostile-family machinery self-test", json!({"children": got.iter().map(|(d, _, r)| json!({"generator": d, "classified_as": r})).collect::<Vec<_>>()}));
}
fn cpu_limit(d: &str) -> u64 {
  if is_small(d) {
    CPU_LIMIT_SMALL_S
  } else {
    CPU_LIMIT_LARGE_S
  }
}

fn run_child(entry: &str, descriptor: &str) -> ChildResult {
  let exe = match std::env::current_exe() {
    Ok(e) => e,
    Err(e) => return ChildResult::Machinery(format!("current_exe: {e}")),
  };
  let mut child = match Command::new(exe).arg(CHILD_ARG).arg(entry).arg(descriptor).arg(cpu_limit(descriptor).to_string()).env("RUST_BACKTRACE", "0").stdin(Stdio::null()).stdout(Stdio::piped()).stderr(Stdio::piped()).spawn() {
    Ok(c) => c,
    Err(e) => return ChildResult::Machinery(format!("spawn: {e}")),
  };
  let t0 = Instant::now();
  let status = loop {
    match child.try_wait() {
      Ok(Some(s)) => break s,
      Ok(None) => {
        if t0.elapsed() > Duration::from_secs(WALL_LIMIT_S) {
          let _ = child.kill();
          let _ = child.wait();
          return ChildResult::WallTimeout;
        }
        std::thread::sleep(Duration::from_millis(20));
      }
      Err(e) => return ChildResult::Machinery(format!("wait: {e}")),
    }
  };
  let mut out = String::new();
  let mut err = String::new();
  use std::io::Read;
  if let Some(mut o) = child.stdout.take() {
    let _ = o.read_to_string(&mut out);
  }
  if let Some(mut e) = child.stderr.take() {
    let _ = e.read_to_string(&mut err);
  }
  let err_tail: String = err.lines().rev().take(3).collect::<Vec<_>>().join(" | ");
  use std::os::unix::process::ExitStatusExt;
  match (status.code(), status.signal()) {
    (Some(0), _) => ChildResult::Returned(out.trim().trim_start_matches("OK ").to_string()),
    (Some(3), _) => {
      let line = out.lines().find(|l| l.starts_with("PANIC ")).unwrap_or("PANIC ?\t?");
      let (k, m) = line.trim_start_matches("PANIC ").split_once('\t').unwrap_or(("?", "?"));
      ChildResult::Panicked(k.to_string(), m.to_string())
    }
    (Some(2), _) => ChildResult::Machinery(format!("child machinery error: {err_tail}")),
    (_, Some(sig)) if sig == libc::SIGXCPU => ChildResult::CpuTimeout,
    // Nothing in the child raises these: somebody else ended it (kernel OOM killer, operator, container runtime).
    (_, Some(sig)) if [libc::SIGKILL, libc::SIGTERM, libc::SIGINT, libc::SIGHUP, libc::SIGQUIT, libc::SIGPIPE].contains(&sig) => ChildResult::NotAttributable(format!("killed-from-outside(signal {sig})")),
    (_, Some(sig)) => {
      let err_tail: String = err.lines().rev().filter(|l| !l.starts_with("c05-alloc-failure ")).take(3).collect::<Vec<_>>().join(" | ");
      if err.contains("memory allocation of") {
        // std's `handle_alloc_error`. Judged only when the failure is explained by the address-space limit of the
        // child, i.e. when the input made the subject ask for (about) more than RLIMIT_AS; an allocation that fails
        // far below the limit means that the machine itself was out of memory.
        return match last_alloc_failure(&err) {
          Some((size, vsize)) if size.saturating_add(vsize).saturating_add(AS_SLACK) >= AS_LIMIT => ChildResult::Aborted(format!("allocation-failure(signal {sig})"), format!("{err_tail} [request {size} B with {vsize} B of address space in use, limit {AS_LIMIT} B]")),
          Some((size, vsize)) => ChildResult::NotAttributable(format!("allocation-failure-below-the-address-space-limit(request {size} B at {vsize} B in use)")),
          None => ChildResult::NotAttributable("allocation-failure-without-diagnostics".into()),
        };
      }
      let class = if err.contains("stack overflow") || err.contains("overflowed its stack") || sig == libc::SIGSEGV { "stack-overflow-or-segv" } else { "abort" };
      ChildResult::Aborted(format!("{class}(signal {sig})"), err_tail)
    }
    // 101 = a panic that escaped on the child's main thread, which runs harness code only
    (Some(101), _) => ChildResult::Machinery(format!("child main thread panicked: {err_tail}")),
    (Some(c), _) => ChildResult::Aborted(format!("exit-code-{c}"), err_tail),
    (None, None) => ChildResult::Machinery("child ended without status".into()),
  }
}

pub fn eval_hostile(ctx: &Ctx, case: &Case) {
  ctx.eval1();
  let d = case.s.clone().unwrap_or_default();
  let short = case.entry.trim_start_matches(HOSTILE_PREFIX);
  // the class of the descriptor (without its size) is part of the outcome label, not of the key
  let class: String = d.rsplit_once(':').map(|x| x.0.to_string()).unwrap_or_default();
  let label = match run_child(&case.entry, &d) {
    ChildResult::Returned(l) => format!("returned:{l}"),
    ChildResult::Panicked(k, m) => {
      ctx.violation(&format!("{short}|{k}"), &m, case);
      "PANIC".to_string()
    }
    ChildResult::Aborted(class_, tail) => {
      ctx.violation(&format!("{short}|{class}|{class_}"), &format!("child process aborted: {tail}"), case);
      "ABORT".to_string()
    }
    ChildResult::CpuTimeout => {
      if is_small(&d) {
        ctx.violation(&format!("{short}|does-not-terminate"), &format!("no result within {CPU_LIMIT_SMALL_S} s of CPU time on an input of {} bytes", d.len()), case);
        "NO-TERMINATION".to_string()
      } else {
        "cpu-limit-on-large-input(not judged)".to_string()
      }
    }
    ChildResult::WallTimeout => "wall-limit(not judged)".to_string(),
    ChildResult::NotAttributable(why) => {
      eprintln!("[C05] hostile child of {} [{d:.60}]: {why} — recorded, not judged", case.entry);
      // (the size-dependent details stay out of the label)
      format!("{}(not judged)", why.split('(').next().unwrap_or("not-attributable"))
    }
    ChildResult::Machinery(m) => {
      ctx.require(false, &format!("hostile child of {}: {m}", case.entry));
      "machinery".to_string()
    }
  };
  ctx.outcome(&format!("{} [{class}] => {label}", case.entry));
  ctx.distinct(&(case.entry.as_str(), d.as_str()));
}

// ------------------------------------------------------------------------------------------------ source census
/// Count `unwrap()/expect(/unreachable!/panic!(` outside `#[cfg(test)]` (textual: a file is cut at its first
/// `#[cfg(test)]`) in the anchored crates, so that the evidence records how many sites the sweep was built for.
fn source_census() -> vx::Value {
  fn walk(dir: &std::path::Path, out: &mut Vec<std::path::PathBuf>) {
    let Ok(rd) = std::fs::read_dir(dir) else { return };
    let mut es: Vec<_> = rd.flatten().map(|e| e.path()).collect();
    es.sort();
    for p in es {
      if p.is_dir() {
        if p.file_name().map(|n| n == "tests" || n == "target").unwrap_or(false) {
          continue;
        }
        walk(&p, out);
      } else if p.extension().map(|e| e == "rs").unwrap_or(false) {
        out.push(p);
      }
    }
  }
  let mut per_crate = serde_json::Map::new();
  let mut total = 0u64;
  for krate in ["identity_core", "identity_did", "identity_document", "identity_verification", "identity_jose", "identity_credential", "identity_iota_core", "identity_storage", "identity_eddsa_verifier", "identity_ecdsa_verifier"] {
    let mut files = Vec::new();
    walk(std::path::Path::new(&format!("/repo/{krate}/src")), &mut files);
    let mut n = 0u64;
    for f in files {
      if f.to_string_lossy().contains("test_utils") {
        continue;
      }
      let Ok(t) = std::fs::read_to_string(&f) else { continue };
      let t = t.split("#[cfg(test)]").next().unwrap_or("");
      for line in t.lines() {
        let l = line.trim_start();
        if l.starts_with("//") {
          continue;
        }
        for pat in [".unwrap()", ".expect(", "unreachable!(", "panic!("] {
          n += l.matches(pat).count() as u64;
        }
      }
    }
    total += n;
    per_crate.insert(krate.to_string(), json!(n));
  }
  // anchored mechanism "crate-level #![forbid(unsafe_code)]": recorded (a mechanism, not part of the statement: not judged)
  let mut forbid = serde_json::Map::new();
  for krate in ["identity_core", "identity_did", "identity_document", "identity_verification", "identity_jose", "identity_credential", "identity_iota_core", "identity_storage", "identity_resolver"] {
    let t = std::fs::read_to_string(format!("/repo/{krate}/src/lib.rs")).unwrap_or_default();
    forbid.insert(krate.to_string(), json!(t.contains("#![forbid(unsafe_code)]")));
  }
  json!({"total_sites_outside_cfg_test": total, "per_crate": per_crate, "crate_level_forbid_unsafe_code(recorded, not judged)": forbid})
}

// ------------------------------------------------------------------------------------------------ site table
/// The census of panic-capable sites (unwrap / expect / unreachable! / panic! / indexing / slicing) outside
/// `#[cfg(test)]` in the anchored crates: (file, code fragment that identifies the site, can externally supplied
/// data reach it?, which sweep of this check drives it). Fragments instead of line numbers: unrelated edits move
/// lines. `site_table_drift` compares the table with the tree that is being checked and reports fragments that
/// disappeared and unwrap-class lines that the table does not know (informational, never judged).
pub const SITES: &[(&str, &str, &str, &str)] = &[
  // ---- identity_core
  ("identity_core/src/common/one_or_many.rs", "Self::Many(_) => unreachable!()", "internal invariant (replace of a matched One); `push` on any deserialised value", "json: Credential::from_json > OneOrMany::push"),
  ("identity_core/src/common/one_or_many.rs", "other.pop().expect(\"infallible\")", "yes: every one-or-many JSON member (context, type, subject, service type)", "json: all from_json sweeps (arrays of length 0/1/2 by mutation)"),
  ("identity_core/src/common/one_or_set.rs", "expect(\"infallible OneOrSet new_set\")", "yes: controller sets of documents", "json: CoreDocument/IotaDocument::from_json; IotaDocument::set_controller"),
  ("identity_core/src/common/one_or_set.rs", "expect(\"OneOrSet::map infallible\")", "yes: CoreDocument::map/try_map over parsed controllers", "json: CoreDocument::try_map; binary: unpack > into_iota_document"),
  ("identity_core/src/common/one_or_set.rs", "expect(\"OneOrSet::try_map infallible\")", "yes: same", "json: CoreDocument::try_map"),
  ("identity_core/src/common/one_or_set.rs", "OneOrSetInner::Set(_) => unreachable!()", "internal invariant; `append` on a parsed controller set", "json: CoreDocument::from_json > controller append"),
  ("identity_core/src/common/timestamp.rs", "expect(\"Timestamp failed to convert system datetime\")", "no: wasm32 clock only (not compiled here)", "-"),
  ("identity_core/src/common/timestamp.rs", "expect(\"Timestamp incompatible with RFC 3339\")", "yes: every accepted timestamp, checked_add/checked_sub results", "strings: Timestamp::parse/from_json prefix trees + grid; census: from_unix; json: Duration"),
  // ---- identity_did
  ("identity_did/src/did_jwk.rs", "expect(\"did:jwk encodes a valid JWK\")", "yes: any accepted did:jwk (parse, serde, TryFrom<CoreDID>)", "strings: DIDJwk::parse/from_json, CoreDID::parse > DIDJwk::try_from"),
  ("identity_did/src/did_url.rs", "expect(\"a DIDUrl should be a valid Url\")", "yes: Url::from(DIDUrl) for every accepted / joined / mutated DID URL", "strings: DIDUrl::parse/join/set_* > Url::from(DIDUrl)"),
  ("identity_did/src/did.rs", "bytes[index]", "yes: method-id scan of every DID string", "strings: CoreDID::parse & co. ('%' at every position)"),
  ("identity_did/src/did_url.rs", "&input[..did_end]", "yes", "strings: DIDUrl::parse (incl. multi-byte symbols)"),
  ("identity_did/src/did_url.rs", "&relative[..index]", "yes", "strings: DIDUrl::parse/join"),
  ("identity_did/src/did_url.rs", "&segment[i..]", "yes: percent-escape validation of path/query/fragment", "strings: DIDUrl::parse/join/set_path/set_query/set_fragment"),
  // ---- identity_jose
  ("identity_jose/src/jwk/jwk_ext.rs", "_ => return Err(Self::Error::InvalidParam(\"Parameters not supported!\"))", "yes (was `_ => unreachable!()` until the fix recorded in known_findings.json): TryFrom<jsonprooftoken::Jwk> for Jwk with OKP-shaped parameters (the impl is compiled unconditionally; its in-tree callers live behind `jpt-bbs-plus`, which is off)", "census: Jwk::try_from(jsonprooftoken::Jwk) (JSON key-family product, member product, tree mutations, constructors)"),
  // ---- identity_document
  ("identity_document/src/document/core_document.rs", "expect(\"unwrapping infallible should be fine\")", "yes: map_unchecked on unpacked documents", "binary: StateMetadataDocument::unpack > into_iota_document; json: StateMetadataDocument::from_json"),
  // ---- identity_credential
  ("identity_credential/src/credential/credential.rs", "Url::parse(\"https://www.w3.org/2018/credentials/v1\").unwrap()", "no: constant", "-"),
  ("identity_credential/src/domain_linkage/domain_linkage_configuration.rs", "did-configuration/v1\").unwrap()", "no: constant", "-"),
  ("identity_credential/src/credential/linked_domain_service.rs", "expect(\"the len should be 1\")", "yes: LinkedDomainService::new with caller-supplied URL sets", "json: Service::from_json > Linked*Service::new(endpoint urls)"),
  ("identity_credential/src/credential/linked_domain_service.rs", "unreachable!(\"the service endpoint is never a set", "yes: domains() on a service that passed check_structure", "json: Service::from_json > LinkedDomainService::try_from > domains"),
  ("identity_credential/src/credential/linked_domain_service.rs", "expect(\"the `origins` property exists", "yes: same", "json: Service::from_json > LinkedDomainService::domains"),
  ("identity_credential/src/credential/linked_verifiable_presentation_service.rs", "expect(\"element 0 exists\")", "yes: ::new with caller-supplied URL sets", "json: Service::from_json > Linked*Service::new(endpoint urls)"),
  ("identity_credential/src/credential/linked_verifiable_presentation_service.rs", "unreachable!(\"the service endpoint is never a map", "yes: verifiable_presentation_urls() after try_from / serde", "json: Service::from_json > LinkedVerifiablePresentationService::try_from / from_json"),
  ("identity_credential/src/credential/revocation_bitmap_status.rs", "expect(\"the string should be non-empty and a valid URL query\")", "yes: RevocationBitmapStatus::new(DIDUrl, index)", "census: RevocationBitmapStatus::new prefix trees; binary: bitmap accessors"),
  ("identity_credential/src/revocation/status_list_2021/entry.rs", "serde_json::to_value(entry).unwrap()", "yes: Status::from(StatusList2021Entry)", "json: StatusList2021Entry/Status/Credential::from_json; census: statusListIndex texts"),
  ("identity_credential/src/revocation/status_list_2021/entry.rs", "serde_json::from_value(json_status).unwrap()", "yes: same", "same"),
  ("identity_credential/src/revocation/status_list_2021/status_list.rs", "StatusList2021::new(MINIMUM_LIST_SIZE).unwrap()", "no: constant", "-"),
  ("identity_credential/src/revocation/status_list_2021/status_list.rs", "compressor.write_all(&self.0).unwrap()", "yes: into_encoded_str of any decoded list (in-memory writer)", "binary: StatusList2021 gzip streams; strings"),
  ("identity_credential/src/revocation/status_list_2021/status_list.rs", "compressor.finish().unwrap()", "yes: same", "same"),
  ("identity_credential/src/revocation/status_list_2021/status_list.rs", "self.0[i] & (0b1000_0000 >> offset)", "yes: get / entry / check_status_with_status_list_2021 with a hostile index", "binary: status_list_accessors; json: StatusList2021Credential; census: statusListIndex texts"),
  ("identity_credential/src/revocation/status_list_2021/status_list.rs", "self.0[i] |= 0b1000_0000 >> offset", "yes: set / set_entry / update", "binary + json: set, set_credential_status, update"),
  ("identity_credential/src/revocation/status_list_2021/status_list.rs", "self.0[i] &= !(0b1000_0000 >> offset)", "yes: same", "same"),
  ("identity_credential/src/revocation/revocation_bitmap_2022/bitmap.rs", "u16::from_le_bytes([data[0], data[1]])", "yes: every decoded endpoint (guarded by len >= 2)", "binary: zlib streams, hand-built roaring streams (0..3 byte inputs)"),
  ("identity_credential/src/sd_jwt_vc/builder.rs", "serde_json::to_value($claim).unwrap()", "yes: SdJwtVcBuilder::finish with caller-supplied claims", "json: Credential::from_json > SdJwtVcBuilder::finish"),
  ("identity_credential/src/sd_jwt_vc/builder.rs", "SdJwtBuilder::<Sha256Hasher>::new(json!({})).unwrap()", "no: constant", "-"),
  ("identity_credential/src/sd_jwt_vc/builder.rs", "expect(\"serialized VC is a JSON object\")", "yes: new_from_credential(parsed credential)", "json: Credential::from_json > SdJwtVcBuilder::new_from_credential"),
  ("identity_credential/src/sd_jwt_vc/builder.rs", "expect(\"serialized VC has `vc` property\")", "yes: same", "same"),
  ("identity_credential/src/sd_jwt_vc/builder.rs", "unreachable!(\"`vc` property's value is a JSON object\")", "yes: same", "same"),
  ("identity_credential/src/sd_jwt_vc/builder.rs", "expect(\"value is a JSON Value\")", "yes: finish", "json: Credential::from_json > SdJwtVcBuilder::finish"),
  ("identity_credential/src/sd_jwt_vc/claims.rs", "serde_json::to_value(status).unwrap()", "yes: SdJwtClaims::from(SdJwtVcClaims) with a parsed `status`", "tokens/census: SdJwtVc::parse > SdJwtClaims::from(SdJwtVcClaims) (status table)"),
  ("identity_credential/src/sd_jwt_vc/token.rs", "sd_jwt_str.split_once('~').unwrap()", "yes: verify_signature of any parsed SD-JWT VC", "tokens: SdJwtVc::parse raw spaces + trees; census table"),
  ("identity_credential/src/sd_jwt_vc/token.rs", "jwk.to_json_value().unwrap().as_object().unwrap()", "yes: validate_key_binding with cnf.jwk", "tokens: KB-JWT table on SD-JWT VC; census table (cnf variants)"),
  ("identity_credential/src/sd_jwt_vc/token.rs", "expect(\"SD-JWT has a '~'\")", "yes: validate_key_binding", "same"),
  ("identity_credential/src/sd_jwt_vc/token.rs", "&encoded_sd_jwt[..=last_tilde_idx]", "yes: same", "same"),
  ("identity_credential/src/sd_jwt_vc/token.rs", "format!(\"{origin}{WELL_KNOWN_VCT}{path}\").parse().unwrap()", "yes: vct_to_url of any URL vct", "strings: Url::parse > vct_to_url; census: iss x vct table"),
  ("identity_credential/src/sd_jwt_vc/metadata/integrity.rs", "self.0.split_once('-').unwrap()", "yes: alg() of any accepted integrity string", "strings: IntegrityMetadata::parse/from_json"),
  ("identity_credential/src/sd_jwt_vc/metadata/integrity.rs", "self.0.split('-').nth(1).unwrap()", "yes: digest()", "same"),
  ("identity_credential/src/sd_jwt_vc/metadata/integrity.rs", "BaseEncoding::decode(self.digest(), Base::Base64).unwrap()", "yes: digest_bytes()", "same"),
  ("identity_credential/src/sd_jwt_vc/metadata/vc_type.rs", "current_type.schema.as_ref().unwrap()", "yes: validate_credential_with_resolver on parsed / resolved type metadata", "json: sd_jwt_vc metadata::from_json > validate_credential_with_resolver x 9 resolver behaviours; census: SdJwtVc::validate"),
  ("identity_credential/src/sd_jwt_vc/metadata/vc_type.rs", "unreachable!(\"schema is provided through `schema_uri`", "yes: same", "same"),
  // ---- identity_iota_core
  ("identity_iota_core/src/did/iota_did.rs", "Self::parse(did).expect(\"DIDs constructed with new should be valid\")", "yes: IotaDID::new / from_alias_id / placeholder with a NetworkName obtained from serde, from_alias_id with any string (KNOWN FINDING)", "strings: NetworkName::try_from/from_json follow-ups, IotaDID::from_alias_id"),
  ("identity_iota_core/src/did/iota_did.rs", "expect(\"normalizing a valid CoreDID should be Ok\")", "yes: IotaDID::try_from_core of any CoreDID", "strings: IotaDID::parse/try_from(CoreDID) trees + grid"),
  ("identity_iota_core/src/did/iota_did.rs", "&tail[1..]", "yes: network_str/tag_str of any accepted IOTA DID", "strings: iota_did_accessors"),
  ("identity_iota_core/src/did/iota_did.rs", "expect(\"being able to successfully decode the tag", "yes: AliasId::from(&IotaDID) of any accepted IOTA DID (feature `client`)", "strings: iota_did_accessors"),
  ("identity_iota_core/src/document/iota_document.rs", "expect(\"empty IotaDocument constructor failed\")", "yes: IotaDocument::new(network) / new_with_id", "strings: NetworkName follow-ups, IotaDID::parse > IotaDocument::new_with_id"),
  ("identity_iota_core/src/document/iota_document.rs", "expect(\"controller is checked to be not empty\")", "yes: set_controller", "json: IotaDocument::from_json > set_controller"),
  ("identity_iota_core/src/state_metadata/document.rs", "CoreDID::parse(\"did:0:0\").unwrap()", "no: constant", "-"),
  // ---- identity_storage
  ("identity_storage/src/key_id_storage/method_digest.rs", "bytes[0]", "yes: MethodDigest::unpack (guarded by the length check)", "binary: MethodDigest::unpack lengths 0..=12 x version byte"),
  ("identity_storage/src/key_id_storage/method_digest.rs", "bytes[1..9]", "yes: same", "same"),
  ("identity_storage/src/key_storage/ed25519.rs", "jwk.try_okp_params().unwrap()", "yes: JwkMemStore::insert / sign with a hostile JWK", "census: JwkMemStore::insert+sign"),
  ("identity_storage/src/key_storage/memstore.rs", "expect(\"should only panic if kty == oct\")", "no: `generate` builds the JWK itself", "census: generate_method table (executed)"),
  ("identity_storage/src/key_storage/bls.rs", "expect(\"kty != oct\")", "no: feature `jpt-bbs-plus` (off in the harness build)", "-"),
  ("identity_storage/src/key_storage/memstore.rs", "expect(\"jwk is private\")", "no: feature `jpt-bbs-plus` (off in the harness build)", "-"),
  ("identity_storage/src/storage/timeframe_revocation_ext.rs", "validity_timeframe).unwrap()", "no: feature `jpt-bbs-plus` (off in the harness build)", "-"),
];

/// Compare `SITES` with the tree under /repo (informational).
fn site_table_drift() -> vx::Value {
  let mut missing = Vec::new();
  for (file, frag, _, _) in SITES {
    match std::fs::read_to_string(format!("/repo/{file}")) {
      Ok(t) => {
        if !t.contains(frag) {
          missing.push(format!("{file}: {frag}"));
        }
      }
      Err(_) => missing.push(format!("{file}: (file not readable)")),
    }
  }
  // unwrap-class lines outside cfg(test) that no fragment of the table matches
  let mut unknown = Vec::new();
  fn walk(dir: &std::path::Path, out: &mut Vec<std::path::PathBuf>) {
    let Ok(rd) = std::fs::read_dir(dir) else { return };
    let mut es: Vec<_> = rd.flatten().map(|e| e.path()).collect();
    es.sort();
    for p in es {
      if p.is_dir() {
        if p.file_name().map(|n| n == "tests" || n == "target").unwrap_or(false) {
          continue;
        }
        walk(&p, out);
      } else if p.extension().map(|e| e == "rs").unwrap_or(false) {
        out.push(p);
      }
    }
  }
  for krate in ["identity_core", "identity_did", "identity_document", "identity_verification", "identity_jose", "identity_credential", "identity_iota_core", "identity_storage", "identity_resolver"] {
    let mut files = Vec::new();
    walk(std::path::Path::new(&format!("/repo/{krate}/src")), &mut files);
    for f in files {
      let rel = f.to_string_lossy().trim_start_matches("/repo/").to_string();
      if rel.contains("test_utils") {
        continue;
      }
      let Ok(t) = std::fs::read_to_string(&f) else { continue };
      let t = t.split("#[cfg(test)]").next().unwrap_or("");
      let lines: Vec<&str> = t.lines().collect();
      for (i, line) in lines.iter().enumerate() {
        let l = line.trim_start();
        if l.starts_with("//") {
          continue;
        }
        if [".unwrap()", ".expect(", "unreachable!(", "panic!("].iter().any(|p| l.contains(p)) {
          // a multi-line call chain puts `.expect(` on its own line: compare a window of three lines
          let window = lines[i.saturating_sub(2)..=i].join("\n") + "\n" + lines.get(i + 1).copied().unwrap_or("");
          if !SITES.iter().any(|(file, frag, _, _)| *file == rel && (window.contains(frag) || frag.lines().any(|fl| l.contains(fl.trim())))) {
            unknown.push(format!("{rel}:{}: {}", i + 1, l.chars().take(100).collect::<String>()));
          }
        }
      }
    }
  }
  let reachable = SITES.iter().filter(|s| s.2.starts_with("yes")).count();
  let uncovered: Vec<_> = SITES.iter().filter(|s| s.3 == "NOT COVERED").map(|s| format!("{}: {}", s.0, s.1)).collect();
  json!({"sites_in_table": SITES.len(), "reachable_from_external_data": reachable, "reachable_but_not_covered": uncovered,
         "table_fragments_not_found_in_/repo": missing, "unwrap_class_lines_in_/repo_unknown_to_the_table": unknown,
         "table": SITES.iter().map(|s| json!({"file": s.0, "site": s.1, "external_data_reaches_it": s.2, "driven_by": s.3})).collect::<Vec<_>>()})
}

pub fn generate(ctx: &Ctx) {
  // ---------------------------------------------------------------- SD-JWT VC: iss x vct x kb table (resolver-driven accessors)
  let isses = [
    "https://example.com/issuer",
    "https://example.com",
    "https://example.com:8443/a/b?c#d",
    "http://example.com/issuer",
    "did:example:123",
    "did:iota:0x0000000000000000000000000000000000000000000000000000000000000000",
    "data:,x",
    "file:///etc/passwd",
    "blob:https://example.com/uuid",
    "urn:uuid:1234",
    "https://[::1]/x",
    "https://xn--nxasmq6b.example/%zz",
    "mailto:a@b.c",
    "not a url",
    "",
  ];
  let vcts = ["https://bmi.bund.example/credential/pid/1.0", "https://example.com", "http://example.com/vct", "did:example:123", "a plain string", "", "https://example.com/%zz?q#f", "data:,x"];
  let mut cases: Vec<(&'static str, String)> = Vec::new();
  for iss in isses {
    for vct in vcts {
      for kb in [true, false] {
        cases.push(("SdJwtVc::parse[table]", crate::tokens::sd_jwt_vc_token(iss, vct, "", kb)));
      }
    }
  }
  for extra in [r#","status":{"status_list":{"idx":1,"uri":"https://example.com/s"}}"#, r#","status":{"x":1}"#, r#","status":5"#, r#","cnf":{"kid":"k"}"#, r#","cnf":{"jwu":{"kid":"k","jwu":"https://a.b"}}"#, r#","cnf":5"#] {
    // (duplicate `cnf` members are themselves a mutation of interest)
    cases.push(("SdJwtVc::parse[table]", crate::tokens::sd_jwt_vc_token("https://example.com/issuer", "https://example.com/vct", extra, true)));
  }
  crate::strings::run_list(ctx, "census: SD-JWT VC iss x vct x kb table with 5 resolver behaviours", &cases, json!({"iss": isses.len(), "vct": vcts.len(), "resolver_modes": ["NotFound", "garbage", "fixed document", "generic error", "wrong JSON shape"]}));

  // ---------------------------------------------------------------- RevocationBitmapStatus::new over DID URL strings
  let sweeps: Vec<Sweep> = vec![sw("RevocationBitmapStatus::new(DIDUrl)", A_DID, &[("did:m:a", ""), ("did:m:a?", ""), ("did:m:a?index=", ""), ("did:m:a#", "")], (3, 4))];
  crate::strings::run_sweeps(ctx, "census: RevocationBitmapStatus::new prefix trees", &sweeps);

  // ---------------------------------------------------------------- status index texts (the index of a credential status is external data)
  const A_IDX: &[&str] = &["0", "1", "5", "9", "4", "-", "+", "&", "=", "%", "i", ".", " ", "é", "e", "x"];
  let sweeps: Vec<Sweep> = vec![
    sw("Status(RevocationBitmap2022)[index text]", A_IDX, &[("", ""), ("429496729", ""), ("42949672", "")], (3, 4)),
    sw("Status(RevocationBitmap2022)[id query]", A_IDX, &[("", ""), ("index=", ""), ("index=5&index=", ""), ("x=1&index", ""), ("index=%3", "")], (3, 4)),
    sw("Status(StatusList2021Entry)[statusListIndex text]", A_IDX, &[("", ""), ("13107", ""), ("1844674407370955161", ""), ("-", "")], (3, 4)),
  ];
  crate::strings::run_sweeps(ctx, "census: credential-status index texts through Status::from_json and the status checks", &sweeps);

  // ---------------------------------------------------------------- identity_resolver: DID strings through handlers of other DID types
  let jwk_did = format!("did:jwk:{}", identity_jose::jwu::encode_b64(crate::json::SEED_JWK_OKP.as_bytes()));
  let jwk_did_ec = format!("did:jwk:{}", identity_jose::jwu::encode_b64(crate::json::SEED_JWK_EC_K.as_bytes()));
  const A_B64: &[&str] = &["A", "e", "y", "J", "9", "-", "_", "=", ".", "z", " ", "é"];
  let sweeps: Vec<Sweep> = vec![
    sw("Resolver::resolve(DID string)", A_DID, &[("did:example:", ""), ("did:iota:", ""), ("did:jwk:", ""), ("did:", ":x"), (&format!("did:iota:smr:{}", crate::strings::VALID_TAG), "")], (3, 4)),
    sw("Resolver::resolve(DID string)", A_B64, &[(&jwk_did, ""), (&jwk_did[..jwk_did.len() - 3], ""), (&jwk_did_ec, ""), ("did:jwk:eyJ", "")], (3, 4)),
  ];
  crate::strings::run_sweeps(ctx, "census: identity_resolver with handlers over DIDJwk / IotaDID / CoreDID", &sweeps);

  // ---------------------------------------------------------------- jsonprooftoken::Jwk <-> Jwk (census: jwk_ext.rs `unreachable!()`)
  {
    let b64 = |n: usize| vx::fx::b64(vec![7u8; n]);
    let curves: Vec<Option<String>> = JPT_CURVES.iter().map(|c| Some(c.to_string())).chain([Some("P-999".to_string()), None]).collect();
    let ktys: [Option<&str>; 6] = [Some("EC"), Some("OKP"), Some("RSA"), Some("oct"), Some("XX"), None];
    let coords: [String; 3] = [b64(32), String::new(), "!! not base64".to_string()];
    let member_sets: [&str; 9] = [
      "",
      r#","kid":"k""#,
      r#","use":"proof""#,
      r#","key_ops":["proofGeneration","proofVerification"]"#,
      r#","alg":"BBS-BLS12381-SHA256""#,
      r#","x5u":"https://example.com/x5u""#,
      r#","x5u":"not a url""#,
      r#","x5c":["MIIB"],"x5t":"dGh1bWI""#,
      r#","kid":"k","use":"sig","key_ops":["sign","verify","encrypt","decrypt","wrapKey","unwrapKey","deriveKey","deriveBits","proofGeneration","proofVerification"],"alg":"BBS-BLS12381-SHAKE256","x5u":"https://example.com/x5u","x5c":["MIIB","MIIC"],"x5t":"dGh1bWI","x5t#S256":"dGh1bWI","unknown":{"a":[1]}"#,
    ];
    let key_text = |with_y: bool, kty: Option<&str>, crv: &Option<String>, private: bool, coord: &str, members: &str| -> String {
      let mut m: Vec<String> = Vec::new();
      if let Some(k) = kty {
        m.push(format!(r#""kty":"{k}""#));
      }
      if let Some(c) = crv {
        m.push(format!(r#""crv":"{c}""#));
      }
      m.push(format!(r#""x":{}"#, js(coord)));
      if with_y {
        m.push(format!(r#""y":{}"#, js(coord)));
      }
      if private {
        m.push(format!(r#""d":{}"#, js(coord)));
      }
      format!("{{{}{members}}}", m.join(","))
    };
    let mut cases: Vec<(&'static str, String)> = Vec::new();
    // (A) every key family json-proof-token can express: shape (EC: x+y / OKP: x) x kty x crv x public/private x coordinate text x member set
    for with_y in [true, false] {
      for kty in ktys {
        for crv in &curves {
          for private in [false, true] {
            for coord in &coords {
              for members in member_sets {
                cases.push(("Jwk::try_from(jsonprooftoken::Jwk)", key_text(with_y, kty, crv, private, coord, members)));
              }
            }
          }
        }
      }
    }
    // (B) the full product of the optional members on four representative key families
    let uses: [Option<&str>; 5] = [None, Some(r#""sig""#), Some(r#""enc""#), Some(r#""proof""#), Some(r#""bad""#)];
    let opss: [Option<&str>; 4] = [None, Some("[]"), Some(r#"["sign","verify","encrypt","decrypt","wrapKey","unwrapKey","deriveKey","deriveBits","proofGeneration","proofVerification"]"#), Some(r#"["bad"]"#)];
    let algs: [Option<&str>; 12] = [None, Some("BBS-BLS12381-SHA256"), Some("BBS-BLS12381-SHAKE256"), Some("SU-ES256"), Some("MAC-H256"), Some("MAC-H384"), Some("MAC-H512"), Some("MAC-K25519"), Some("MAC-K448"), Some("MAC-H256K"), Some("EdDSA"), Some("")];
    let x5us: [Option<&str>; 3] = [None, Some("https://example.com/x5u"), Some("not a url")];
    let families: [(bool, &str, &str, bool); 4] = [(true, "EC", "P-256", false), (true, "EC", "BLS12381G2", true), (false, "OKP", "Ed25519", false), (true, "OKP", "BLS12381G2", false)];
    for (with_y, kty, crv, private) in families {
      for u in uses {
        for o in opss {
          for a in algs {
            for x in x5us {
              for rest in ["", r#","kid":"k","x5c":["MIIB"],"x5t":"dGh1bWI""#] {
                let mut members = String::new();
                if let Some(u) = u {
                  members.push_str(&format!(r#","use":{u}"#));
                }
                if let Some(o) = o {
                  members.push_str(&format!(r#","key_ops":{o}"#));
                }
                if let Some(a) = a {
                  members.push_str(&format!(r#","alg":{}"#, js(a)));
                }
                if let Some(x) = x {
                  members.push_str(&format!(r#","x5u":{}"#, js(x)));
                }
                members.push_str(rest);
                cases.push(("Jwk::try_from(jsonprooftoken::Jwk)", key_text(with_y, Some(kty), &Some(crv.to_string()), private, &coords[0], &members)));
              }
            }
          }
        }
      }
    }
    // (C) every node x mutation menu of two rich seeds (an EC key and an OKP key)
    for (with_y, kty, crv) in [(true, "EC", "BLS12381G2"), (false, "OKP", "Ed25519")] {
      let seed = crate::json::J::parse(&key_text(with_y, Some(kty), &Some(crv.to_string()), true, &coords[0], member_sets[8]));
      for p in seed.paths() {
        for m in 0..crate::json::N_MUT {
          let mut j = seed.clone();
          if crate::json::mutate(&mut j, &p, m) {
            cases.push(("Jwk::try_from(jsonprooftoken::Jwk)", j.text()));
          }
        }
      }
    }
    // (D) json-proof-token's constructors
    for kind in ["ec", "okp"] {
      for c in 0..JPT_CURVES.len() {
        for d in [0, 1] {
          for via in ["plain", "public", "members"] {
            cases.push(("Jwk::try_from(jsonprooftoken::Jwk)", format!("{JPT_CTOR}{kind}:{c}:{d}:{via}")));
          }
        }
      }
    }
    cases.push(("Jwk::try_from(jsonprooftoken::Jwk)", format!("{JPT_CTOR}generate:0")));
    cases.push(("Jwk::try_from(jsonprooftoken::Jwk)", format!("{JPT_CTOR}generate:1")));
    let n_forward = cases.len();
    // (E) the reverse direction: every key family of identity_jose's own Jwk x crv text x alg x members
    let mut rev: Vec<String> = [crate::json::SEED_JWK_OKP, crate::json::SEED_JWK_OKP_PRIV, crate::json::SEED_JWK_EC, crate::json::SEED_JWK_EC_K, crate::json::SEED_JWK_RSA, crate::json::SEED_JWK_OCT, crate::json::SEED_JWK_X25519].iter().map(|s| s.to_string()).collect();
    for crv in curves.iter().flatten().map(|s| s.as_str()).chain(["", "bls12381g2", "BLS12381G2 "]) {
      for private in [false, true] {
        for a in algs {
          for (u, o) in [(None, None), (Some(r#""proof""#), Some(r#"["proofGeneration","proofVerification","sign","deriveBits"]"#)), (Some(r#""enc""#), Some("[]"))] {
            for x in [None, Some("https://example.com/x5u")] {
              let mut members = String::new();
              if let Some(u) = u {
                members.push_str(&format!(r#","use":{u}"#));
              }
              if let Some(o) = o {
                members.push_str(&format!(r#","key_ops":{o}"#));
              }
              if let Some(a) = a {
                members.push_str(&format!(r#","alg":{}"#, js(a)));
              }
              if let Some(x) = x {
                members.push_str(&format!(r#","x5u":{},"x5c":["MIIB"],"x5t":"dGh1bWI","x5t#S256":"dGh1bWI","kid":"k""#, js(x)));
              }
              rev.push(key_text(true, Some("EC"), &Some(crv.to_string()), private, &coords[0], &members));
            }
          }
        }
      }
    }
    for t in rev {
      cases.push(("TryInto<jsonprooftoken::Jwk>(&Jwk)", t));
    }
    crate::strings::run_list(
      ctx,
      "census: jsonprooftoken::Jwk <-> identity_jose Jwk conversions",
      &cases,
      json!({"forward_cases": n_forward, "reverse_cases": cases.len() - n_forward,
        "forward": "JSON deserialised by json-proof-token: shape{x+y,x} x kty{EC,OKP,RSA,oct,XX,absent} x crv{12 curves,P-999,absent} x {public,private} x coordinate{32 bytes,empty,not base64} x 9 member sets; use(5) x key_ops(4) x alg(12) x x5u(3) x rest(2) on 4 key families; every node x mutation menu of an EC and an OKP seed; constructors {EC,OKP parameters} x 12 curves x {public,private} x {from_key_params, to_public, all setters} + generate x 2",
        "reverse": "7 seed JWKs; EC x crv text(17) x {public,private} x alg(12) x members(3) x x5u(2)"}),
    );
  }

  // ---------------------------------------------------------------- Timestamp::from_unix boundaries
  let mut cases: Vec<(&'static str, String)> = Vec::new();
  for base in [-62167219200i64, 253402300799, 0, i64::MIN + 4, i64::MAX - 4, -62135596800, u32::MAX as i64, i32::MIN as i64] {
    for d in -4..=4i64 {
      cases.push(("Timestamp::from_unix", (base.saturating_add(d)).to_string()));
    }
  }
  crate::strings::run_list(ctx, "census: Timestamp::from_unix boundaries", &cases, json!({"bases": 8, "deltas": "-4..=4"}));

  // ---------------------------------------------------------------- key storage with hostile JWKs
  let priv_ok = {
    let mut k = crate::tokens::ISSUER_KEY.private_with_alg("EdDSA");
    k.set_kid("k");
    k.to_json().unwrap()
  };
  let mut cases: Vec<(&'static str, String)> = vec![("JwkMemStore::insert+sign", priv_ok.clone())];
  let seed = crate::json::J::parse(&priv_ok);
  for p in seed.paths() {
    for m in 0..crate::json::N_MUT {
      let mut j = seed.clone();
      if crate::json::mutate(&mut j, &p, m) {
        cases.push(("JwkMemStore::insert+sign", j.text()));
      }
    }
  }
  for kty in ["OKP", "EC", "RSA", "oct"] {
    for crv in ["Ed25519", "X25519", "Ed448", "P-256", "BLS12381G2", ""] {
      for alg in ["EdDSA", "ES256", "HS256", "BBS", ""] {
        for dlen in [0usize, 1, 31, 32, 33, 64] {
          let d = vx::fx::b64(vec![7u8; dlen]);
          let x = vx::fx::b64(vec![9u8; 32]);
          let body = match kty {
            "OKP" => format!(r#""crv":"{crv}","x":"{x}","d":"{d}""#),
            "EC" => format!(r#""crv":"{crv}","x":"{x}","y":"{x}","d":"{d}""#),
            "RSA" => format!(r#""n":"{x}","e":"AQAB","d":"{d}""#),
            _ => format!(r#""k":"{d}""#),
          };
          cases.push(("JwkMemStore::insert+sign", format!(r#"{{"kty":"{kty}","alg":"{alg}",{body}}}"#)));
          // declared kty disagrees with the parameter family
          cases.push(("JwkMemStore::insert+sign", format!(r#"{{"kty":"OKP","alg":"{alg}",{body}}}"#)));
        }
      }
    }
  }
  crate::strings::run_list(ctx, "census: JwkMemStore::insert+sign with hostile JWKs", &cases, json!({"space": "every node of a private Ed25519 JWK x mutation menu; kty(4) x crv(6) x alg(5) x d-length(6), each also with declared kty OKP"}));
  let mut cases: Vec<(&'static str, String)> = Vec::new();
  for kt in ["Ed25519", "BLS12381G2", "ed25519", "", "X25519", "é"] {
    for alg in ["EdDSA", "ES256", "ES256K", "HS256", "none"] {
      for frag in ["<none>", "k9", "#k9", "k", "#k", "", "#", "a b", "a#b", "%41", "%4", "%", "é", "did:example:123#z", "?x", "/p", &"f".repeat(300)] {
        for scope in ["0", "1"] {
          cases.push(("JwkDocumentExt::generate_method+create_jws", format!("{kt}|{alg}|{frag}|{scope}")));
        }
      }
    }
  }
  crate::strings::run_list(ctx, "census: generate_method/create_jws argument table", &cases, json!({"product": "key type(6) x alg(5) x fragment(17) x scope(2)"}));

  ctx.part("census: source sites", source_census());
  ctx.part("census: site table", site_table_drift());

  // ---------------------------------------------------------------- hostile sizes (child process, last)
  let q = ctx.quick();
  let mut hostile: Vec<(&'static str, String)> = Vec::new();
  let sizes = |q_sizes: &[usize], t_sizes: &[usize]| -> Vec<usize> { if q { q_sizes.to_vec() } else { t_sizes.to_vec() } };
  for n in sizes(&[1 << 20, 64 << 20], &[1 << 20, 64 << 20, 5 << 30]) {
    hostile.push((HOSTILE[0].0, format!("zeros-gzip:{n}")));
    hostile.push((HOSTILE[1].0, format!("zeros-zlib:{n}")));
  }
  for n in sizes(&[16, 1024], &[16, 1024, 65536]) {
    hostile.push((HOSTILE[2].0, format!("full-containers:{n}")));
  }
  for kind in ["arr", "obj", "doc-prop"] {
    for n in sizes(&[100, 200, 100_000], &[100, 127, 128, 129, 200, 10_000, 1_000_000]) {
      hostile.push((HOSTILE[3].0, format!("nest:{kind}:{n}")));
    }
  }
  for what in ["did", "did-colons", "did-pct", "did-url-query", "timestamp-fraction", "url", "b64", "base58", "network", "integrity", "jws", "jws-dots", "sd-jwt-tildes", "sd-jwt-disclosures"] {
    // (base-58 decoding is quadratic: 100 000 symbols cost ~10 s of CPU, which alone was the critical path of the quick tier)
    let cap = if what == "base58" { ctx.by_tier(30_000, 100_000) } else if what == "sd-jwt-disclosures" { 100_000 } else { usize::MAX };
    let heavy = ["did", "jws", "url", "timestamp-fraction"].contains(&what);
    for n in sizes(if heavy { &[100_000, 4_000_000] } else { &[100_000] }, if heavy { &[100_000, 4_000_000, 64_000_000] } else { &[100_000, 1_000_000] }) {
      hostile.push((HOSTILE[4].0, format!("long:{what}:{}", n.min(cap))));
    }
  }
  for what in ["methods", "same-methods", "controllers", "types", "keys", "dup-keys"] {
    for n in sizes(&[1000], &[1000, 5000]) {
      hostile.push((HOSTILE[5].0, format!("many:{what}:{n}")));
    }
  }
  hostile.push((HOSTILE[6].0, format!("did:did:iota:smr:{}", crate::strings::VALID_TAG)));
  if !q {
    hostile.push((HOSTILE[6].0, format!("did:did:iota:{}", crate::strings::VALID_TAG)));
  }
  hostile.sort();
  hostile.dedup();
  let cases: Vec<Case> = hostile.iter().filter(|(e, _)| crate::only(e)).map(|(e, d)| Case { entry: e.to_string(), s: Some(d.clone()), b: None }).collect();
  // children are single-threaded and memory-hungry: at most 4 at a time
  let pool = vx::rayon::ThreadPoolBuilder::new().num_threads(4).build().expect("pool");
  pool.install(|| {
    machinery_selftest(ctx);
    cases.par_iter().for_each(|c| eval_hostile(ctx, c))
  });
  ctx.add_states(cases.len() as u64);
  ctx.add_transitions(cases.len() as u64);
  ctx.add_traces(cases.len() as u64);
  if let Some(c) = cases.first() {
    ctx.sample("hostile", c);
  }
  ctx.part("census: hostile sizes (child process)", json!({"cases": cases.len(), "rlimit_as_bytes": AS_LIMIT, "rlimit_cpu_s_small_inputs": CPU_LIMIT_SMALL_S, "rlimit_cpu_s_large_inputs": CPU_LIMIT_LARGE_S, "wall_limit_s": WALL_LIMIT_S, "generators": HOSTILE.iter().map(|h| h.0).collect::<Vec<_>>()}));
  ctx.bound("hostile_rlimit_as", AS_LIMIT);
  ctx.assume("hostile family: the child is this same binary, the subject runs on a thread with an explicit 8 MiB stack; RLIMIT_AS = 4 GiB, RLIMIT_CPU = 5 s for inputs below 4 KiB and 40 s otherwise. Judged: an unwind; a stack overflow / SIGSEGV / abort(); an allocation failure that is explained by RLIMIT_AS (failed request + address space in use >= limit - 256 MiB, as reported by the child's allocator); SIGXCPU (CPU time, not wall time) on an input smaller than 4 KiB (non-termination). Recorded and never judged: SIGXCPU on a large input, the wall limit, an allocation failure below the limit (machine out of memory), SIGKILL/SIGTERM/... from outside (OOM killer)");
  let _ = Local::default();
  let _ = In::S("");
}
