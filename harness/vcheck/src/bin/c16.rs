//! C16 — SD-JWT credentials and key-binding JWTs are accepted only when fully bound.
//!
//! E1 (choice DFS, deviation-bounded) over hand-assembled, harness-signed tokens:
//!
//! (a) `issuer`: `SdJwtCredentialValidator::{validate_credential, verify_signature}` — the binding core
//!     {entry point / trusted issuer list ([I], [J,I], [I,J], []), signing key, kid, method_id override, method_scope,
//!     credential issuer, nonce header x option} + dates (bounds set/unset, owned clock) + structure + status x StatusCheck
//!     + FailFast + five concealable claims (subject property, nested member, array element, member of a concealed object,
//!     that object) each presented/withheld + tampering {forged value, foreign, not base64url, not an array, same content
//!     in other bytes, duplicated, reversed} + decoy digests + one digest occurring twice in the signed claims + `_sd_alg`
//!     + attached KB-JWT. I's document also lists a method under J's DID (`did:vx:issuer2#jx`, a key only I holds): with
//!     both issuers trusted a token naming J and signed with that key must not pass.
//! (b) `issuer-core`: the FULL product of the binding core, crossed with <= 0 (quick) / <= 1 (thorough) other deviations.
//! (c) `kb`: `validate_key_binding_jwt` — KB-JWT absent/present, typ, alg, signing key (holder key, another key of the
//!     holder, a foreign document's key, payload changed after signing, the key of the foreign-DID method listed in the
//!     holder document), kid, method_id override, scope, supplied holder document, sd_hash {right, other disclosure
//!     subset, garbage, token only, reversed order, absent, the right digest minus its last character / its first
//!     character / empty / plus one character / plus `=` / one letter in the other case}, nonce claim x option and aud
//!     claim {string, absent, array} x option, each with values that are a strict prefix / an extension / the empty string
//!     of the other side (both directions; the issuer side has the same shapes for header nonce x option),
//!     iat {integer, out of the year range, string, integral / fractional float, absent} x {earliest, latest} bound x owned
//!     clock, additional claims, disclosure subsets, `_sd_alg`.
//! (d) `kb-core`: the FULL product {typ, alg, signing key, kid, override, scope, holder document} crossed with <= 0 / <= 1
//!     other deviations; in the quick tier (0 other deviations) the sd_hash alternatives are part of the product.
//!
//! Oracle: the set of FALSE conditions is computed from the choices and a hand-written table of the documents (never by
//! calling the resolver). accepted => no stated condition is false, and what is returned equals what was signed (the
//! credential with exactly the withheld claims missing / the KB claims). rejected => (unless the case contains an
//! alternative the statement leaves open) every reported error whose variant names a condition blames one that really is
//! false; an error of a variant the check does not know is judged only when NO condition is false (then nothing could be
//! blamed) — this is also the liveness direction. Never a panic. Which of several false conditions is reported, the order
//! of several errors and error messages are not judged (messages only refine the class of `JwsDecodingError`, and a
//! message the check does not recognise falls back to the coarse class).
//! Issuer side additionally: with unobjectionable disclosures accepted/rejected equals the verdict of
//! `JwtCredentialValidator` on the same claims with nothing concealed ("the same rules as a plain JWT credential"); whether
//! both report the same error variants is recorded in the histogram only.

use identity_core::common::{Object, Timestamp, Url};
use identity_core::convert::FromJson;
use identity_credential::credential::{Credential, Jwt};
use identity_credential::revocation::RevocationBitmap;
use identity_credential::sd_jwt_payload::{Disclosure, KeyBindingJwtClaims, SdJwt, SdObjectDecoder, SdObjectEncoder};
use identity_credential::validator::{
  FailFast, JwtCredentialValidationOptions, JwtCredentialValidator, JwtValidationError, KeyBindingJWTValidationOptions, KeyBindingJwtError,
  SdJwtCredentialValidator, StatusCheck,
};
use identity_did::{CoreDID, DIDUrl};
use identity_document::document::CoreDocument;
use identity_document::service::Service;
use identity_document::verifiable::JwsVerificationOptions;
use identity_eddsa_verifier::EdDSAJwsVerifier;
use identity_verification::{MethodRef, MethodScope, VerificationMethod};
use once_cell::sync::Lazy;
use serde::{Deserialize, Serialize};
use sha2::{Digest, Sha256};
use std::collections::BTreeSet;
use vx::choice::{self, Chooser};
use vx::fx::{self, EdKey, NOW};
use vx::rayon::prelude::*;
use vx::{guard, json, Ctx, Level, Value};

#[derive(Serialize, Deserialize, Debug, Clone)]
enum Case {
  /// (a): choice sequence of `issuer_body`
  Issuer { seq: Vec<u32> },
  /// (b): the binding-core tuple (entry, key, kid, override, scope, iss, nonce pair) + choice sequence of the rest
  IssuerCore { core: Vec<u32>, seq: Vec<u32> },
  /// (c): choice sequence of `kb_body`
  Kb { seq: Vec<u32> },
  /// (d): the tuple (typ, alg, key, kid, override, scope, holder document) + choice sequence of the rest
  KbCore { core: Vec<u32>, seq: Vec<u32> },
}

// ------------------------------------------------------------------------------------------------ world
const I: &str = "did:vx:issuer";
const J: &str = "did:vx:issuer2";
const H: &str = "did:vx:holder";
const F: &str = "did:vx:mallory";

/// One line of the hand-written document table the oracle resolves against.
struct MInfo {
  doc: &'static str,
  id: &'static str,
  key: u8,
  general: bool,
  assertion: bool,
  authentication: bool,
}
const METHODS: &[MInfo] = &[
  MInfo { doc: I, id: "did:vx:issuer#m1", key: 1, general: false, assertion: true, authentication: false }, // embedded
  MInfo { doc: I, id: "did:vx:issuer#m2", key: 2, general: true, assertion: true, authentication: false },  // referenced
  MInfo { doc: I, id: "did:vx:issuer#m3", key: 3, general: true, assertion: false, authentication: false },
  MInfo { doc: I, id: "did:vx:foreign#m4", key: 4, general: true, assertion: false, authentication: false },
  MInfo { doc: I, id: "did:vx:issuer#ma", key: 5, general: false, assertion: false, authentication: true },
  MInfo { doc: J, id: "did:vx:issuer2#j1", key: 6, general: false, assertion: true, authentication: false },
  MInfo { doc: H, id: "did:vx:holder#h1", key: 7, general: false, assertion: false, authentication: true },
  MInfo { doc: H, id: "did:vx:holder#h2", key: 8, general: true, assertion: false, authentication: false },
  MInfo { doc: H, id: "did:vx:foreign#hf", key: 9, general: true, assertion: false, authentication: false },
  MInfo { doc: F, id: "did:vx:mallory#h1", key: 10, general: false, assertion: false, authentication: true },
  // a method under the DID of the OTHER issuer, listed in I's document with a key only I holds
  MInfo { doc: I, id: "did:vx:issuer2#jx", key: 11, general: true, assertion: true, authentication: false },
];
/// Is a method with exactly this id listed in `doc` (in whatever relationship)?
fn listed(doc: &str, id: &str) -> bool {
  METHODS.iter().any(|m| m.doc == doc && m.id == id)
}
/// The document that lists key number `key`.
fn key_doc(key: u8) -> &'static str {
  METHODS.iter().find(|m| m.key == key).map(|m| m.doc).unwrap_or("")
}

#[derive(Clone, Copy, PartialEq, Debug)]
enum Scope {
  None,
  Assertion,
  Authentication,
  General,
}
impl Scope {
  fn of(i: usize) -> Scope {
    [Scope::None, Scope::Assertion, Scope::Authentication, Scope::General][i]
  }
  fn real(self) -> Option<MethodScope> {
    match self {
      Scope::None => None,
      Scope::Assertion => Some(MethodScope::assertion_method()),
      Scope::Authentication => Some(MethodScope::authentication()),
      Scope::General => Some(MethodScope::VerificationMethod),
    }
  }
}
/// Table lookup: the method with exactly this id in `doc`, if it is in the requested scope.
fn table_lookup(doc: &str, id: &str, scope: Scope) -> Option<&'static MInfo> {
  METHODS.iter().find(|m| m.doc == doc && m.id == id).filter(|m| match scope {
    Scope::None => true,
    Scope::Assertion => m.assertion,
    Scope::Authentication => m.authentication,
    Scope::General => m.general,
  })
}

struct World {
  keys: Vec<EdKey>,
  i: CoreDocument,
  j: CoreDocument,
  h: CoreDocument,
  f: CoreDocument,
}
impl World {
  fn doc(&self, did: &str) -> &CoreDocument {
    match did {
      I => &self.i,
      J => &self.j,
      H => &self.h,
      _ => &self.f,
    }
  }
  fn key(&self, n: u8) -> &EdKey {
    &self.keys[n as usize]
  }
}

fn method(id: &str, key: &EdKey) -> VerificationMethod {
  let (did, frag) = id.split_once('#').unwrap();
  VerificationMethod::new_from_jwk(CoreDID::parse(did).unwrap(), key.public.clone(), Some(frag)).expect("method")
}

static WORLD: Lazy<World> = Lazy::new(|| {
  let keys: Vec<EdKey> = (0..=11u8).map(EdKey::new).collect();
  let build = |did: &str| {
    let mut b = CoreDocument::builder(Object::new()).id(CoreDID::parse(did).unwrap());
    for m in METHODS.iter().filter(|m| m.doc == did) {
      let vm = method(m.id, &keys[m.key as usize]);
      if m.general {
        let id = vm.id().clone();
        b = b.verification_method(vm);
        if m.assertion {
          b = b.assertion_method(MethodRef::Refer(id.clone()));
        }
        if m.authentication {
          b = b.authentication(MethodRef::Refer(id));
        }
      } else if m.assertion {
        b = b.assertion_method(MethodRef::Embed(vm));
      } else if m.authentication {
        b = b.authentication(MethodRef::Embed(vm));
      }
    }
    b.build().expect("document")
  };
  let mut i = build(I);
  let mut bitmap = RevocationBitmap::new();
  bitmap.revoke(5);
  i.insert_service(bitmap.to_service(DIDUrl::parse("did:vx:issuer#rev").unwrap()).expect("bitmap service")).expect("insert rev");
  i.insert_service(
    Service::builder(Object::new())
      .id(DIDUrl::parse("did:vx:issuer#other").unwrap())
      .type_("LinkedDomains")
      .service_endpoint(Url::parse("https://issuer.example/").unwrap())
      .build()
      .expect("service"),
  )
  .expect("insert other");
  World { i, j: build(J), h: build(H), f: build(F), keys }
});

// ------------------------------------------------------------------------------------------------ helpers
/// Core dimensions come from a fixed tuple in the product parts and from the chooser otherwise.
struct Src<'c, 'p> {
  ch: &'c mut Chooser<'p>,
  core: Option<&'c [u32]>,
  k: usize,
}
impl Src<'_, '_> {
  fn core(&mut self, label: &'static str, n: usize) -> usize {
    match self.core {
      Some(c) => {
        let v = c[self.k] as usize;
        self.k += 1;
        assert!(v < n, "core tuple out of range at {label}");
        v
      }
      None => self.ch.choose(label, n),
    }
  }
  fn other(&mut self, label: &'static str, n: usize) -> usize {
    self.ch.choose(label, n)
  }
  fn describe(&self) -> String {
    format!("core={:?} choices=[{}]", self.core, self.ch.labelled().join(" "))
  }
}

fn b64_sha256(s: &str) -> String {
  fx::b64(Sha256::digest(s.as_bytes()))
}

/// b64(header).b64(payload).b64(sig over header.payload_signed) — `payload_shipped` differs when tampering.
fn compact(header: &Value, payload_signed: &str, payload_shipped: &str, key: &EdKey) -> String {
  let h = fx::b64(serde_json::to_string(header).unwrap().as_bytes());
  let sig = key.sign(format!("{h}.{}", fx::b64(payload_signed.as_bytes())).as_bytes());
  format!("{h}.{}.{}", fx::b64(payload_shipped.as_bytes()), fx::b64(sig))
}

/// Concealable claims: a subject property, a nested member, an array element, a member of a concealed object
/// (its digest lives inside the next disclosure), and that object.
const N: usize = 5;
const SALTS: [&str; N] = [
  "c2FsdC1uYW1lLTAxMjM0NTY3ODk",
  "c2FsdC1kZWdyZWUtMDEyMzQ1Njc4",
  "c2FsdC1sYW5nLTAxMjM0NTY3ODk",
  "c2FsdC1jaXR5LTAxMjM0NTY3ODk",
  "c2FsdC1hZGRyZXNzLTAxMjM0NTY3",
];
const PATHS: [&str; N] = [
  "/vc/credentialSubject/name",
  "/vc/credentialSubject/degree/name",
  "/vc/credentialSubject/langs/1",
  "/vc/credentialSubject/address/city",
  "/vc/credentialSubject/address",
];
const WITHHOLD: [&str; N] =
  ["withhold subject property", "withhold nested member", "withhold array element", "withhold member of concealed object", "withhold concealed object"];
fn subject_props() -> Value {
  json!({"name": "Alice", "degree": {"type": "BachelorDegree", "name": "Bachelor of Science"}, "langs": ["en", "de", "fr"],
    "address": {"city": "Berlin", "zip": "10115"}})
}
const ISS_DATE: i64 = NOW - 1000;
const EXP_DATE: i64 = NOW + 1000;

/// What the issuer signs and how it is presented; shared by the issuer and the KB parts.
struct Built {
  /// SD-encoded payload (what is signed)
  payload: String,
  /// all disclosures, index = concealable claim
  disclosures: Vec<Disclosure>,
}

/// How the issuer dressed the digests up (hand-edited into the payload before it is signed).
#[derive(Clone, Copy, Default)]
struct Dress {
  /// decoy digests (matched by no disclosure) in the subject's `_sd` (front and back), in the nested `_sd` and as array
  /// elements (front and back)
  decoys: bool,
  /// 1: the digest of claim 0 twice in the subject's `_sd`; 2: also in the nested object's `_sd`; 3: the digest of the
  /// array element twice in the array
  dup: usize,
}

/// SD-encode `claims` concealing the N claims (if the subject carries them).
fn sd_encode(claims: &Value, concealable: bool, sd_alg: usize) -> Built {
  sd_encode_dressed(claims, concealable, sd_alg, Dress::default())
}

fn sd_encode_dressed(claims: &Value, concealable: bool, sd_alg: usize, dress: Dress) -> Built {
  let mut built = sd_encode_plain(claims, concealable, sd_alg);
  if concealable && (dress.decoys || dress.dup != 0) {
    let mut v: Value = serde_json::from_str(&built.payload).unwrap();
    let digest = |i: usize| json!(b64_sha256(&built.disclosures[i].to_string()));
    let subj = &mut v["vc"]["credentialSubject"];
    if dress.decoys {
      subj["_sd"].as_array_mut().expect("subject _sd").push(json!(b64_sha256("decoy-1")));
      subj["_sd"].as_array_mut().unwrap().insert(0, json!(b64_sha256("decoy-2")));
      subj["degree"]["_sd"].as_array_mut().expect("nested _sd").push(json!(b64_sha256("decoy-3")));
      subj["langs"].as_array_mut().expect("array").insert(0, json!({"...": b64_sha256("decoy-4")}));
      subj["langs"].as_array_mut().unwrap().push(json!({"...": b64_sha256("decoy-5")}));
    }
    match dress.dup {
      1 => subj["_sd"].as_array_mut().expect("subject _sd").push(digest(0)),
      2 => subj["degree"]["_sd"].as_array_mut().expect("nested _sd").push(digest(0)),
      3 => subj["langs"].as_array_mut().expect("array").push(json!({"...": digest(2)})),
      _ => {}
    }
    built.payload = v.to_string();
  }
  built
}

fn sd_encode_plain(claims: &Value, concealable: bool, sd_alg: usize) -> Built {
  let mut enc = SdObjectEncoder::new(&claims.to_string()).expect("encoder");
  let mut disclosures = Vec::new();
  if concealable {
    // the member of the object before the object itself (recursive disclosure)
    for i in 0..N {
      disclosures.push(enc.conceal(PATHS[i], Some(SALTS[i].to_string())).expect("conceal"));
    }
  }
  if sd_alg == 0 {
    enc.add_sd_alg_property();
  }
  let mut payload = enc.try_to_string().expect("payload");
  if sd_alg == 2 {
    let mut v: Value = serde_json::from_str(&payload).unwrap();
    v["_sd_alg"] = json!("sha-512");
    payload = v.to_string();
  }
  Built { payload, disclosures }
}

/// The credential in VC data-model form with the claims `withheld` removed (the oracle's expected result).
fn expected_credential(vc_form: &Value, concealable: bool, presented: &[bool; N]) -> Result<Credential, String> {
  let mut v = vc_form.clone();
  if concealable {
    let s = v["credentialSubject"].as_object_mut().unwrap();
    if !presented[0] {
      s.remove("name");
    }
    if !presented[1] {
      s["degree"].as_object_mut().unwrap().remove("name");
    }
    if !presented[2] {
      s["langs"].as_array_mut().unwrap().remove(1);
    }
    if !presented[4] {
      s.remove("address");
    } else if !presented[3] {
      s["address"].as_object_mut().unwrap().remove("city");
    }
  }
  Credential::from_json_value(v).map_err(|e| format!("expected credential does not deserialise: {e}"))
}

#[derive(Clone, Copy, PartialEq, Debug)]
enum Tamper {
  None,
  Forged,
  Foreign,
  GarbageNotB64,
  GarbageNotArray,
  /// the JSON content of a genuine disclosure in other bytes (no blanks after the commas): what is presented does not
  /// hash to a signed digest
  Reencoded,
  Duplicated,
  Reversed,
}

/// The presented disclosure list.
fn present(all: &[Disclosure], presented: &[bool; N], tamper: Tamper) -> Vec<String> {
  let mut out: Vec<String> = all.iter().zip(presented).filter(|(_, p)| **p).map(|(d, _)| d.to_string()).collect();
  match tamper {
    Tamper::None => {}
    Tamper::Forged => {
      // same salt and claim name, other value: for the first presented claim (replacing it), else for claim 0 (appended)
      let idx = presented.iter().position(|p| *p).unwrap_or(0);
      let forged = match all.get(idx) {
        Some(d) => Disclosure::new(d.salt.clone(), d.claim_name.clone(), json!("Forged Value")).to_string(),
        None => Disclosure::new(SALTS[0].to_string(), Some("name".into()), json!("Forged Value")).to_string(),
      };
      if presented.iter().any(|p| *p) && !all.is_empty() {
        out[0] = forged;
      } else {
        out.push(forged);
      }
    }
    Tamper::Foreign => out.push(Disclosure::new("c2FsdC1mb3JlaWduLTAxMjM0NTY3OA".into(), Some("admin".into()), json!(true)).to_string()),
    Tamper::GarbageNotB64 => out.push("%%% not base64url %%%".into()),
    Tamper::GarbageNotArray => out.push(fx::b64(br#"{"salt":"x","name":"admin","value":true}"#)),
    Tamper::Reencoded => {
      let idx = presented.iter().position(|p| *p).unwrap_or(0);
      let (salt, name, value) = match all.get(idx) {
        Some(d) => (d.salt.clone(), d.claim_name.clone(), d.claim_value.clone()),
        None => (SALTS[0].to_string(), Some("name".to_string()), json!("Alice")),
      };
      let compact_json = match name {
        Some(n) => format!("[{},{},{}]", json!(salt), json!(n), value),
        None => format!("[{},{}]", json!(salt), value),
      };
      let re = fx::b64(compact_json.as_bytes());
      assert!(all.iter().all(|d| d.to_string() != re), "re-encoded disclosure equals a genuine one");
      if presented.iter().any(|p| *p) && !all.is_empty() {
        out[0] = re;
      } else {
        out.push(re);
      }
    }
    Tamper::Duplicated => {
      let first = out[0].clone();
      out.push(first);
    }
    Tamper::Reversed => out.reverse(),
  }
  out
}

/// How an equality-checked string misses the expected one (`got != want`): truncated comparisons (zip, starts_with,
/// length of the shorter side) accept exactly the prefix classes.
fn mismatch(got: &str, want: &str) -> &'static str {
  if want.starts_with(got) {
    if got.is_empty() {
      "empty-where-a-value-is-expected"
    } else {
      "strict-prefix-of-expected"
    }
  } else if got.starts_with(want) {
    if want.is_empty() {
      "value-where-empty-is-expected"
    } else {
      "expected-is-strict-prefix"
    }
  } else {
    "differs"
  }
}

fn names(set: &BTreeSet<String>) -> BTreeSet<String> {
  set.iter().map(|c| c.split(':').next().unwrap().to_string()).collect()
}

// ------------------------------------------------------------------------------------------------ (a),(b) issuer side
/// Entry point and the list of trusted issuer documents handed to it (keys carry the part before '[').
const ENTRY: [&str; 5] = [
  "SdJwtCredentialValidator::validate_credential",
  "SdJwtCredentialValidator::verify_signature",
  "SdJwtCredentialValidator::verify_signature[J,I]",
  "SdJwtCredentialValidator::verify_signature[I,J]",
  "SdJwtCredentialValidator::verify_signature[]",
];
const ENTRY_SHORT: [&str; 5] = ["validate", "verify[I]", "verify[J,I]", "verify[I,J]", "verify[]"];
const ISSUER_CORE_DIMS: [usize; 7] = [5, 7, 10, 5, 4, 5, 5];
/// (nonce in the protected header, nonce in the options): all five patterns of two values up to renaming.
const NONCE_PAIRS: [(Option<&str>, Option<&str>); 5] =
  [(None, None), (Some("nonce-1"), Some("nonce-1")), (Some("nonce-1"), None), (None, Some("nonce-1")), (Some("nonce-1"), Some("nonce-2"))];

/// The condition an error names. `JwsDecodingError` is what the validator uses for the nonce and for undecodable
/// disclosures: its message refines the class where it is one of the two known today, any other message is the coarse
/// class `jws-wellformed` (justified when the nonce or the disclosures are at fault). `other`: a variant the check does
/// not know (judged only when nothing is false).
fn blame_issuer(e: &JwtValidationError) -> &'static str {
  match e {
    JwtValidationError::JwsDecodingError(src) => {
      let s = src.to_string();
      if s.contains("nonce") {
        "nonce"
      } else if s.contains("sd-jwt claims decoding failed") {
        "disclosures"
      } else {
        "jws-wellformed"
      }
    }
    JwtValidationError::MethodDataLookupError { .. } => "key-lookup",
    JwtValidationError::DocumentMismatch { .. } => "issuer-doc",
    JwtValidationError::Signature { .. } => "signature",
    JwtValidationError::CredentialStructure(_) => "structure",
    JwtValidationError::SignerUrl { .. } => "issuer-url",
    JwtValidationError::IdentifierMismatch { .. } => "issuer-binding",
    JwtValidationError::IssuanceDate => "issued",
    JwtValidationError::ExpirationDate => "expiry",
    JwtValidationError::InvalidStatus(_) | JwtValidationError::ServiceLookupError { .. } | JwtValidationError::Revoked | JwtValidationError::Suspended => "status",
    _ => "other",
  }
}
/// Is blaming class `b` justified by the set of false condition names?
fn blame_justified(b: &str, false_names: &BTreeSet<String>) -> bool {
  match b {
    "other" => !false_names.is_empty(),
    "jws-wellformed" => false_names.contains("nonce") || false_names.contains("disclosures"),
    _ => false_names.contains(b),
  }
}

fn issuer_body(ctx: &Ctx, src: &mut Src, mk: &dyn Fn(Vec<u32>) -> Case, part: &'static str) {
  let w = &*WORLD;
  // ---- binding core
  let entry = src.core("entry", 5);
  // m1, m2, m3, m4 (foreign-DID method), J's key, m1 + payload changed after signing, jx (J-DID method listed in I)
  let sig = src.core("signing-key", 7);
  let kid = src.core("kid", 10);
  let ovr = src.core("method_id", 5);
  let scope = Scope::of(src.core("method_scope", 4));
  let iss = src.core("iss", 5);
  let nonce_pair = src.core("nonce header/option", 5);
  let (mut hdr_nonce, mut opt_nonce) = NONCE_PAIRS[nonce_pair];
  // ---- the rest
  // shapes of a nonce mismatch: one side a strict prefix of the other, one side the empty string
  match nonce_pair {
    2 => hdr_nonce = [Some("nonce-1"), Some("")][src.other("nonce header (option unset)", 2)],
    3 => opt_nonce = [Some("nonce-1"), Some("")][src.other("nonce option (header without nonce)", 2)],
    4 => {
      (hdr_nonce, opt_nonce) = [
        (Some("nonce-1"), Some("nonce-2")),
        (Some("nonce-"), Some("nonce-1")),
        (Some("nonce-1"), Some("nonce-")),
        (Some(""), Some("nonce-1")),
        (Some("nonce-1"), Some("")),
      ][src.other("nonce mismatch shape", 5)]
    }
    _ => {}
  }
  let exp_absent = src.other("exp-absent", 2) == 1;
  let latest = [None, Some(ISS_DATE + 1), Some(ISS_DATE), Some(ISS_DATE - 1)][src.other("latest_issuance_date", 4)];
  let earliest = [None, Some(EXP_DATE - 1), Some(EXP_DATE), Some(EXP_DATE + 1)][src.other("earliest_expiry_date", 4)];
  let clock = [NOW, ISS_DATE - 1, ISS_DATE, EXP_DATE, EXP_DATE + 1][src.other("clock", 5)];
  let structure = src.other("structure", 5); // ok, no base context, base context second, no base type, subject without id and properties
  let status = src.other("status", 8);
  let status_check = [StatusCheck::Strict, StatusCheck::SkipUnsupported, StatusCheck::SkipAll][src.other("StatusCheck", 3)];
  let fail_fast_all = src.other("FailFast", 2) == 1;
  let sd_alg = src.other("_sd_alg", 3); // sha-256, absent, sha-512 (no hasher)
  let concealable = structure != 4;
  let mut presented = [false; N];
  let mut dress = Dress::default();
  if concealable {
    for i in 0..N {
      presented[i] = src.other(WITHHOLD[i], 2) == 0;
    }
    dress.decoys = src.other("decoy-digests", 2) == 1;
    dress.dup = src.other("digest-twice-in-signed-claims", 4);
  }
  let n_presented = presented.iter().filter(|p| **p).count();
  let mut tampers = vec![Tamper::None, Tamper::Forged, Tamper::Foreign, Tamper::GarbageNotB64, Tamper::GarbageNotArray, Tamper::Reencoded];
  if n_presented >= 1 {
    tampers.push(Tamper::Duplicated);
  }
  if n_presented >= 2 {
    tampers.push(Tamper::Reversed);
  }
  let tamper = tampers[src.other("disclosure-tamper", tampers.len())];
  // validate_credential documents that an attached KB-JWT is not looked at
  let kb_attached = src.other("kb-jwt-attached", 2) == 1;
  let case = mk(src.ch.seq());
  fx::set_now(clock);

  // ---- claims (VC data model 1.1 JWT encoding, assembled by hand) and the VC form the oracle expects back
  let iss_str = [I, J, "did:vx:nobody", "did:vx:issuer/path?x=1", "https://issuer.example/"][iss];
  let contexts = match structure {
    1 => json!(["https://www.w3.org/2018/credentials/examples/v1"]),
    2 => json!(["https://www.w3.org/2018/credentials/examples/v1", "https://www.w3.org/2018/credentials/v1"]),
    _ => json!(["https://www.w3.org/2018/credentials/v1", "https://www.w3.org/2018/credentials/examples/v1"]),
  };
  let types = if structure == 3 { json!(["UniversityDegreeCredential"]) } else { json!(["VerifiableCredential", "UniversityDegreeCredential"]) };
  let subject_props = if concealable { subject_props() } else { json!({}) };
  let status_json: Option<Value> = match status {
    0 => None,
    1 => Some(json!({"id": "did:vx:issuer?index=3#rev", "type": "RevocationBitmap2022", "revocationBitmapIndex": "3"})),
    2 => Some(json!({"id": "did:vx:issuer?index=5#rev", "type": "RevocationBitmap2022", "revocationBitmapIndex": "5"})),
    3 => Some(json!({"id": "https://issuer.example/status/1", "type": "SomeOtherStatus2099"})),
    4 => Some(json!({"id": "did:vx:issuer#rev", "type": "RevocationBitmap2022", "revocationBitmapIndex": "x3"})),
    5 => Some(json!({"id": "did:vx:issuer?index=3#rev", "type": "RevocationBitmap2022", "revocationBitmapIndex": "4"})),
    6 => Some(json!({"id": "did:vx:issuer?index=3#nope", "type": "RevocationBitmap2022", "revocationBitmapIndex": "3"})),
    _ => Some(json!({"id": "did:vx:issuer?index=3#other", "type": "RevocationBitmap2022", "revocationBitmapIndex": "3"})),
  };
  let mut vc = json!({"@context": contexts, "type": types, "credentialSubject": subject_props});
  let mut vc_form = json!({
    "@context": contexts, "id": "https://issuer.example/credentials/3732", "type": types,
    "credentialSubject": subject_props, "issuer": iss_str, "issuanceDate": fx::ts(ISS_DATE).to_string(),
  });
  let mut claims = json!({"iss": iss_str, "nbf": ISS_DATE, "jti": "https://issuer.example/credentials/3732", "vx_custom": 7});
  if concealable {
    claims["sub"] = json!("did:vx:holder");
    vc_form["credentialSubject"]["id"] = json!("did:vx:holder");
  }
  if !exp_absent {
    claims["exp"] = json!(EXP_DATE);
    vc_form["expirationDate"] = json!(fx::ts(EXP_DATE).to_string());
  }
  if let Some(s) = &status_json {
    vc["credentialStatus"] = s.clone();
    vc_form["credentialStatus"] = s.clone();
  }
  claims["vc"] = vc;
  let built = sd_encode_dressed(&claims, concealable, sd_alg, dress);
  let disclosures = present(&built.disclosures, &presented, tamper);

  // ---- token
  let kid_str: Option<&str> = [
    Some("did:vx:issuer#m1"),
    Some("did:vx:issuer#m2"),
    Some("did:vx:issuer#m3"),
    Some("did:vx:foreign#m4"),
    Some("did:vx:issuer2#j1"),
    None,
    Some("#m1"),
    Some("m1"),
    Some("urn:uuid:7d1c2f0e-0000-4000-8000-000000000001"),
    Some("did:vx:issuer2#jx"),
  ][kid];
  let mut header = json!({"alg": "EdDSA", "typ": "JWT"});
  if let Some(k) = kid_str {
    header["kid"] = json!(k);
  }
  if let Some(n) = hdr_nonce {
    header["nonce"] = json!(n);
  }
  let sign_key_no = [1u8, 2, 3, 4, 6, 1, 11][sig];
  let sign_key = w.key(sign_key_no);
  let shipped = if sig == 5 { built.payload.replace("\"vx_custom\":7", "\"vx_custom\":8") } else { built.payload.clone() };
  let payload_changed = shipped != built.payload;
  if sig == 5 && !payload_changed {
    ctx.require(false, "issuer: payload tampering did not change the payload");
  }
  let jwt = compact(&header, &built.payload, &shipped, sign_key);
  let sd_jwt = SdJwt::new(jwt, disclosures.clone(), if kb_attached { Some("this.is.not-a-kb-jwt".to_string()) } else { None });

  // ---- options
  let ovr_str: Option<&str> =
    [None, Some("did:vx:issuer#m1"), Some("did:vx:issuer#m3"), Some("did:vx:issuer2#j1"), Some("did:vx:issuer2#jx")][ovr];
  let mut vo = JwsVerificationOptions::new();
  if let Some(n) = opt_nonce {
    vo = vo.nonce(n);
  }
  if let Some(s) = scope.real() {
    vo = vo.method_scope(s);
  }
  if let Some(m) = ovr_str {
    vo = vo.method_id(DIDUrl::parse(m).unwrap());
  }
  let mut options = JwtCredentialValidationOptions::new().verification_options(vo.clone()).status_check(status_check);
  if let Some(t) = latest {
    options = options.latest_issuance_date(fx::ts(t));
  }
  if let Some(t) = earliest {
    options = options.earliest_expiry_date(fx::ts(t));
  }

  // ---- expected false conditions (from the choices and the table)
  let trusted: &[&str] = match entry {
    0 | 1 => &[I],
    2 => &[J, I],
    3 => &[I, J],
    _ => &[],
  };
  let mut f_sig: BTreeSet<String> = BTreeSet::new();
  let mut open: Vec<&str> = Vec::new();
  match (hdr_nonce, opt_nonce) {
    (Some(h), Some(o)) if h != o => drop(f_sig.insert(format!("nonce:{}", mismatch(h, o)))),
    (Some(_), None) => drop(f_sig.insert("nonce:header-carries-one-none-configured".into())),
    (None, Some(_)) => drop(f_sig.insert("nonce:configured-but-header-carries-none".into())),
    _ => {}
  }
  let method_id: Option<&str> = match (ovr_str, kid) {
    (Some(m), _) => Some(m),
    (None, 5) => {
      f_sig.insert("key-lookup:kid-absent".into());
      None
    }
    (None, 6) | (None, 7) => {
      open.push("kid is only a fragment");
      None
    }
    (None, 8) => {
      f_sig.insert("key-lookup:kid-not-a-did-url".into());
      None
    }
    (None, _) => kid_str,
  };
  let mut method_did: Option<&str> = None;
  if let Some(m) = method_id {
    let did = m.split('#').next().unwrap();
    method_did = Some(did);
    match trusted.iter().find(|t| **t == did) {
      None => {
        // the method's DID must equal the id of a trusted document, also when a trusted document lists the method
        let listed_in_trusted = trusted.iter().any(|t| listed(t, m));
        f_sig.insert(format!("issuer-doc:{}", if listed_in_trusted { "foreign-did-method-listed-in-issuer" } else { "untrusted-document" }));
      }
      Some(doc) => match table_lookup(doc, m, scope) {
        None => {
          // looked up in the document whose id is the method's DID and nowhere else
          f_sig.insert(format!("key-lookup:{}", if listed(doc, m) { "method-not-in-scope" } else { "method-not-in-document" }));
        }
        Some(info) => {
          if payload_changed {
            f_sig.insert("signature:payload-changed".into());
          } else if info.key != sign_key_no {
            f_sig.insert(format!("signature:{}", if key_doc(sign_key_no) != *doc { "key-of-another-document" } else { "key-of-another-method" }));
          }
        }
      },
    }
  }
  match iss {
    3 => open.push("issuer given with DID URL parts"),
    4 => {
      f_sig.insert("issuer-url".into());
    }
    _ => {
      if let Some(d) = method_did {
        if d != iss_str {
          f_sig.insert("issuer-binding".into());
        }
      }
    }
  }
  if presented[3] && !presented[4] {
    // its digest is only inside the withheld disclosure of the object: not present in what was signed and presented
    f_sig.insert("disclosures:member-without-its-concealed-parent".into());
  }
  match tamper {
    Tamper::Forged => drop(f_sig.insert("disclosures:forged-value".into())),
    Tamper::Foreign => drop(f_sig.insert("disclosures:foreign".into())),
    Tamper::GarbageNotB64 => drop(f_sig.insert("disclosures:not-base64url".into())),
    Tamper::GarbageNotArray => drop(f_sig.insert("disclosures:not-an-array".into())),
    Tamper::Reencoded => drop(f_sig.insert("disclosures:same-content-other-bytes".into())),
    Tamper::Duplicated => open.push("a disclosure presented twice"),
    Tamper::Reversed => open.push("disclosures in reversed order"),
    Tamper::None => {}
  }
  // a digest occurring twice matters only once its disclosure is presented (otherwise both are as good as decoys)
  let dup_live = match dress.dup {
    1 | 2 => presented[0],
    3 => presented[2],
    _ => false,
  };
  if dup_live {
    open.push("the digest of a presented disclosure occurs twice in the signed claims");
  }
  match sd_alg {
    1 => open.push("_sd_alg absent"),
    2 => {
      open.push("_sd_alg names an algorithm without hasher");
      if !disclosures.is_empty() {
        // the digests were made with sha-256: under the declared algorithm no presented disclosure hashes to one of them
        f_sig.insert("disclosures:hashed-with-another-algorithm-than-declared".into());
      }
    }
    _ => {}
  }
  let mut f_post: BTreeSet<String> = BTreeSet::new();
  if ISS_DATE > latest.unwrap_or(clock) {
    f_post.insert(format!("issued:{}", if latest.is_some() { "after-bound" } else { "after-now" }));
  }
  if !exp_absent && EXP_DATE < earliest.unwrap_or(clock) {
    f_post.insert(format!("expiry:{}", if earliest.is_some() { "before-bound" } else { "before-now" }));
  }
  match structure {
    1 => drop(f_post.insert("structure:no-base-context".into())),
    2 => drop(f_post.insert("structure:base-context-not-first".into())),
    3 => drop(f_post.insert("structure:no-base-type".into())),
    4 => drop(f_post.insert("structure:empty-subject".into())),
    _ => {}
  }
  if status_check != StatusCheck::SkipAll {
    let class = match status {
      2 => Some("revoked"),
      3 if status_check == StatusCheck::Strict => Some("unsupported-type"),
      4 => Some("malformed-index"),
      5 => Some("index-query-differs-from-property"),
      6 => Some("service-missing"),
      7 => Some("service-of-wrong-type"),
      _ => None,
    };
    if let Some(c) = class {
      f_post.insert(format!("status:{c}"));
    }
  }
  let must: BTreeSet<String> = if entry == 0 { f_sig.union(&f_post).cloned().collect() } else { f_sig.clone() };
  let all_false: BTreeSet<String> = names(&f_sig).union(&names(&f_post)).cloned().collect();
  // what an error may rightly blame: a credential naming an issuer outside the trusted list is at odds with the signer
  // either way (the signer is not trusted, or it is not the named issuer), so both readings are accepted there
  let mut blameable = all_false.clone();
  if iss <= 2 && !trusted.contains(&iss_str) && (blameable.contains("issuer-doc") || blameable.contains("issuer-binding")) {
    blameable.insert("issuer-doc".into());
    blameable.insert("issuer-binding".into());
  }

  // ---- run
  let validator = SdJwtCredentialValidator::with_signature_verifier(EdDSAJwsVerifier::default(), SdObjectDecoder::new_with_sha256());
  let name = ENTRY[entry].split('[').next().unwrap();
  let docs: Vec<&CoreDocument> = trusted.iter().map(|d| w.doc(d)).collect();
  let result: Result<Result<_, Vec<JwtValidationError>>, _> = guard(|| match entry {
    0 => validator
      .validate_credential::<_, Object>(&sd_jwt, w.doc(I), &options, if fail_fast_all { FailFast::AllErrors } else { FailFast::FirstError })
      .map_err(|e| e.validation_errors),
    _ => validator.verify_signature::<_, Object>(&sd_jwt, &docs, &vo).map_err(|e| vec![e]),
  });
  fx::set_now(NOW);
  let describe = || format!("{} | false: {:?} {:?} | open: {:?}", src.describe(), f_sig, f_post, open);
  let label;
  let sd_verdict: Vec<&'static str>;
  match result {
    Err(p) => {
      ctx.violation(&format!("{name}|{}", p.key()), &format!("{} @ {} | {}", p.msg, p.loc, describe()), &case);
      label = "panic".to_string();
      sd_verdict = vec!["panic"];
    }
    Ok(Ok(decoded)) => {
      sd_verdict = vec!["accepted"];
      for c in &must {
        ctx.violation(&format!("{name}|accepted|{c}"), &describe(), &case);
      }
      if !dup_live {
        match expected_credential(&vc_form, concealable, &presented) {
          Ok(want) => {
            if decoded.credential != want {
              ctx.violation(
                &format!("{name}|accepted|credential-differs-from-signed-minus-withheld"),
                &format!("got {} want {} | {}", serde_json::to_string(&decoded.credential).unwrap_or_default(), serde_json::to_string(&want).unwrap_or_default(), describe()),
                &case,
              );
            }
          }
          Err(e) => ctx.require(false, &format!("issuer: {e}")),
        }
      }
      if decoded.header.kid() != kid_str || decoded.header.nonce() != hdr_nonce {
        ctx.violation(&format!("{name}|accepted|header-differs-from-signed"), &describe(), &case);
      }
      // the signed custom claim comes back with its signed value (whatever else the map may carry)
      if decoded.custom_claims.as_ref().and_then(|c| c.get("vx_custom")) != Some(&json!(7)) {
        ctx.violation(&format!("{name}|accepted|custom-claims-differ-from-signed"), &format!("{:?} | {}", decoded.custom_claims, describe()), &case);
      }
      label = "accepted".to_string();
    }
    Ok(Err(errors)) => {
      let blamed: Vec<&'static str> = errors.iter().map(blame_issuer).collect();
      sd_verdict = errors.iter().map(|e| e.into()).collect();
      if errors.is_empty() {
        ctx.violation(&format!("{name}|rejected|no-error-reported"), &describe(), &case);
      }
      if !fail_fast_all && errors.len() > 1 {
        // FailFast::FirstError: "Return after the first error occurs."
        ctx.violation(&format!("{name}|rejected|more-than-one-error-where-one-is-specified"), &format!("{blamed:?} | {}", describe()), &case);
      }
      if open.is_empty() {
        for (b, e) in blamed.iter().zip(&errors) {
          if !blame_justified(b, &blameable) {
            ctx.violation(&format!("{name}|rejected-blaming-a-condition-that-holds|{b}"), &format!("error: {e} / {e:?} | {}", describe()), &case);
          }
        }
        if f_sig.is_empty() && fail_fast_all && entry == 0 && !blamed.contains(&"other") {
          // signature stage holds, FailFast::AllErrors ("Return all errors that occur during validation"): every false
          // condition is reported, in whatever order
          for c in names(&f_post) {
            if !blamed.contains(&c.as_str()) {
              ctx.violation(&format!("{name}|AllErrors|false-condition-not-reported|{c}"), &format!("{blamed:?} | {}", describe()), &case);
            }
          }
        }
      }
      let variant: &'static str = errors.first().map(|e| e.into()).unwrap_or("none");
      label = format!("rejected:{}/{variant}", blamed.first().copied().unwrap_or("none"));
    }
  }
  // "the same issuer, kid, scope and nonce rules ... the same date, structure and status checks as a plain JWT
  // credential": with unobjectionable disclosures accepted/rejected equals the verdict of JwtCredentialValidator on the same
  // claims (nothing concealed), same header, same key, same options, same trusted documents. Which of several false
  // conditions either of them reports first is promised nowhere: whether the error variants agree is recorded only.
  let mut differential = "none";
  if tamper == Tamper::None && sd_alg != 2 && !(presented[3] && !presented[4]) && !dup_live {
    let plain_payload = claims.to_string();
    let plain_shipped = if sig == 5 { plain_payload.replace("\"vx_custom\":7", "\"vx_custom\":8") } else { plain_payload.clone() };
    let plain = Jwt::new(compact(&header, &plain_payload, &plain_shipped, sign_key));
    let pv = JwtCredentialValidator::with_signature_verifier(EdDSAJwsVerifier::default());
    fx::set_now(clock);
    let r = guard(|| match entry {
      0 => pv
        .validate::<_, Object>(&plain, w.doc(I), &options, if fail_fast_all { FailFast::AllErrors } else { FailFast::FirstError })
        .map_err(|e| e.validation_errors),
      _ => pv.verify_signature::<_, Object>(&plain, &docs, &vo).map_err(|e| vec![e]),
    });
    fx::set_now(NOW);
    let plain_verdict: Vec<&'static str> = match &r {
      Err(_) => vec!["panic"],
      Ok(Ok(_)) => vec!["accepted"],
      Ok(Err(es)) => es.iter().map(|e| e.into()).collect(),
    };
    let accepted = |v: &Vec<&'static str>| v.len() == 1 && v[0] == "accepted";
    if plain_verdict == ["panic"] || sd_verdict == ["panic"] {
      // a panic of the SD-JWT validator is reported above; one of the plain validator is C02's subject
      differential = "panic";
    } else if accepted(&plain_verdict) != accepted(&sd_verdict) {
      differential = "verdict-differs";
      ctx.violation(
        &format!("{name}|verdict-differs-from-plain-jwt-credential|sd-jwt={}|plain={}", if accepted(&sd_verdict) { "accepted" } else { "rejected" }, if accepted(&plain_verdict) { "accepted" } else { "rejected" }),
        &format!("sd-jwt: {sd_verdict:?} plain: {plain_verdict:?} | {}", describe()),
        &case,
      );
    } else {
      let (mut a, mut b) = (sd_verdict.clone(), plain_verdict.clone());
      a.sort();
      b.sort();
      differential = if a == b { "same" } else { "same-verdict-other-error-variants" };
    }
  }
  // recorded, not judged: the plain validator agreed on accepted/rejected but reported other error variants
  let noted = if differential == "same-verdict-other-error-variants" || differential == "panic" { format!(" [plain-jwt:{differential}]") } else { String::new() };
  ctx.outcome(&format!("{part}:{}:{label}{noted}", ENTRY_SHORT[entry]));
  if !label.starts_with("rejected:jws-wellformed") {
    ctx.distinct(&(part, src.core.map(|c| c.to_vec()), src.ch.seq()));
  }
  if src.ch.deviations() <= 1 && src.core.map_or(true, |c| c.iter().sum::<u32>() <= 1 && src.ch.deviations() == 0) {
    ctx.sample(part, &case);
  }
}

// ------------------------------------------------------------------------------------------------ (c),(d) key binding
const KB: &str = "SdJwtCredentialValidator::validate_key_binding_jwt";
const IAT0: i64 = NOW - 10;

/// typ alternatives. The statement says `kb+jwt`; sd-jwt-payload 0.2.1 publishes KB_JWT_HEADER_TYP = " kb+jwt" (leading
/// space) and the repository's tests type their KB-JWTs with that constant. Alternative 0 must be the one the
/// implementation accepts on the otherwise benign token, or everything behind the typ test is unreachable: the literal of
/// the statement if the implementation accepts it, else the library constant if that is accepted (probed once per
/// process on the real validator; deterministic for a given tree). The oracle always judges against the literal.
static TYPS: Lazy<Vec<Option<&'static str>>> = Lazy::new(|| {
  let lit = Some("kb+jwt");
  let lib = Some(KeyBindingJwtClaims::KB_JWT_HEADER_TYP);
  let mut v = vec![lit];
  if lib != lit {
    if !probe_typ(lit) && probe_typ(lib) {
      v.insert(0, lib);
    } else {
      v.push(lib);
    }
  }
  for t in [Some("JWT"), None, Some("KB+JWT"), Some("kb+jwt "), Some("vc+kb+jwt"), Some("kb+jwt+x")] {
    if !v.contains(&t) {
      v.push(t);
    }
  }
  v
});
fn typ_alphabet() -> Vec<Option<&'static str>> {
  TYPS.clone()
}
/// Does the real validator accept the benign KB-JWT when it is typed `typ`?
fn probe_typ(typ: Option<&str>) -> bool {
  let w = &*WORLD;
  let claims = json!({"iss": I, "nbf": ISS_DATE, "sub": H, "vc": {"@context": ["https://www.w3.org/2018/credentials/v1"],
    "type": ["VerifiableCredential"], "credentialSubject": subject_props()}});
  let built = sd_encode(&claims, true, 0);
  let jwt = compact(&json!({"alg": "EdDSA", "typ": "JWT", "kid": "did:vx:issuer#m1"}), &built.payload, &built.payload, w.key(1));
  let ds: Vec<String> = built.disclosures.iter().map(|d| d.to_string()).collect();
  let kb = json!({"iat": IAT0, "aud": "did:vx:verifier", "nonce": "nonce-1", "sd_hash": b64_sha256(&format!("{jwt}~{}~", ds.join("~")))}).to_string();
  let mut header = json!({"alg": "EdDSA", "kid": "did:vx:holder#h1"});
  if let Some(t) = typ {
    header["typ"] = json!(t);
  }
  let sd_jwt = SdJwt::new(jwt, ds, Some(compact(&header, &kb, &kb, w.key(7))));
  let validator = SdJwtCredentialValidator::with_signature_verifier(EdDSAJwsVerifier::default(), SdObjectDecoder::new_with_sha256());
  fx::set_now(NOW);
  matches!(guard(|| validator.validate_key_binding_jwt(&sd_jwt, w.doc(H), &KeyBindingJWTValidationOptions::new())), Ok(Ok(_)))
}
fn typ_class(t: Option<&str>) -> &'static str {
  match t {
    None => "absent",
    Some("JWT") => "JWT",
    Some("KB+JWT") => "upper-case",
    Some(" kb+jwt") => "leading-space",
    Some("kb+jwt ") => "trailing-space",
    Some("vc+kb+jwt") => "prefixed",
    Some("kb+jwt+x") => "suffixed",
    Some(_) => "other",
  }
}
/// sd_hash alternatives with every disclosure presented (the 8th member of the quick tier's KB core tuple)
const KB_HASHES: usize = 14;
fn kb_core_dims() -> [usize; 7] {
  [typ_alphabet().len(), 2, 5, 7, 5, 4, 2]
}

fn blame_kb(e: &KeyBindingJwtError) -> &'static str {
  match e {
    KeyBindingJwtError::MissingKeyBindingJwt => "kb-present",
    KeyBindingJwtError::InvalidHeaderTypValue => "typ",
    KeyBindingJwtError::JwtValidationError(inner) => match inner {
      // the key could not be taken from the supplied document / the method is not one of that document
      JwtValidationError::MethodDataLookupError { .. } | JwtValidationError::DocumentMismatch { .. } | JwtValidationError::IdentifierMismatch { .. } => "key-lookup",
      JwtValidationError::Signature { .. } => "signature",
      // both tokens are well-formed compact JWS wherever rejections are judged (a garbage issuer part is an open
      // alternative): a JOSE error can then only be about verifying the signature (key, alg, signature bytes)
      JwtValidationError::JwsDecodingError(_) => "signature",
      _ => "other",
    },
    KeyBindingJwtError::DeserializationError(_) => "claims-wellformed",
    KeyBindingJwtError::SdJwtError(_) => "sd-alg",
    KeyBindingJwtError::InvalidDigest => "sd_hash",
    KeyBindingJwtError::InvalidNonce => "nonce",
    KeyBindingJwtError::AudianceMismatch => "aud",
    KeyBindingJwtError::IssuanceDate(_) => "iat",
    _ => "other",
  }
}
fn kb_variant(e: &KeyBindingJwtError) -> String {
  let v: &'static str = e.into();
  match e {
    KeyBindingJwtError::JwtValidationError(inner) => {
      let i: &'static str = inner.into();
      format!("{v}({i})")
    }
    _ => v.to_string(),
  }
}

fn kb_body(ctx: &Ctx, src: &mut Src, mk: &dyn Fn(Vec<u32>) -> Case, part: &'static str) {
  let w = &*WORLD;
  // ---- binding core
  let typs = typ_alphabet();
  let typ = typs[src.core("typ", typs.len())];
  let alg = ["EdDSA", "ES256"][src.core("alg", 2)];
  // h1, h2 (another key of the holder), mallory's key, h1 + payload changed after signing, the key of the foreign-DID method hf
  let sig = src.core("signing-key", 5);
  let kid = src.core("kid", 7);
  let ovr = src.core("method_id", 5);
  let scope = Scope::of([0usize, 2, 1, 3][src.core("method_scope", 4)]); // None, authentication, assertionMethod, VerificationMethod
  let holder_doc = [H, F][src.core("holder-document", 2)];
  // ---- the rest
  let kb_absent = src.other("kb-jwt-absent", 2) == 1;
  let mut presented = [true; N];
  for i in 0..N {
    presented[i] = src.other(WITHHOLD[i], 2) == 0;
  }
  let n_presented = presented.iter().filter(|p| **p).count();
  let sd_alg = src.other("_sd_alg", 3);
  let issuer_jwt_garbage = src.other("issuer-jwt-not-a-jws", 2) == 1;
  #[derive(Clone, Copy, PartialEq, Debug)]
  enum Hash {
    Right,
    OtherSubset,
    Garbage,
    TokenOnly,
    Absent,
    /// the right digest without its last character / its first character only / the empty string
    Truncated,
    FirstChar,
    Empty,
    /// the right digest followed by one more character / by `=` padding / with one letter in the other case
    Extended,
    Padded,
    CaseFlipped,
    Reversed,
    /// the first presented disclosure is presented a second time (at the end / right after itself); sd_hash is the
    /// digest over the presentation without the repetition
    RepeatedAtEnd,
    RepeatedAdjacent,
  }
  let mut hashes = vec![
    Hash::Right,
    Hash::OtherSubset,
    Hash::Garbage,
    Hash::TokenOnly,
    Hash::Absent,
    Hash::Truncated,
    Hash::FirstChar,
    Hash::Empty,
    Hash::Extended,
    Hash::Padded,
    Hash::CaseFlipped,
  ];
  if n_presented >= 2 {
    hashes.push(Hash::Reversed);
  }
  if n_presented >= 1 {
    hashes.push(Hash::RepeatedAtEnd);
    hashes.push(Hash::RepeatedAdjacent);
  }
  // part (d), quick tier: the sd_hash alternative is the 8th member of the core tuple
  let hash = match src.core {
    Some(c) if c.len() > 7 => {
      let v = c[7] as usize;
      if v >= hashes.len() {
        return ctx.require(false, "kb-core: sd_hash alternative of the core tuple out of range");
      }
      hashes[v]
    }
    _ => hashes[src.other("sd_hash", hashes.len())],
  };
  let nonce_claim = [Some("nonce-1"), Some("nonce-2"), None, Some("nonce-"), Some("nonce-1x"), Some("")][src.other("nonce-claim", 6)];
  let nonce_opt = [None, Some("nonce-1"), Some("nonce-2"), Some("nonce-"), Some("nonce-1x"), Some("")][src.other("nonce-option", 6)];
  // aud claim: a string, a string it is a strict prefix of, absent, an array holding the first, an array holding both (the
  // other one first), the empty string
  let aud_kind = src.other("aud-claim", 6);
  let aud_values: &[&str] = [
    &["did:vx:verifier"][..],
    &["did:vx:verifier2"][..],
    &[][..],
    &["did:vx:verifier"][..],
    &["did:vx:verifier2", "did:vx:verifier"][..],
    &[""][..],
  ][aud_kind];
  let aud_is_array = aud_kind == 3 || aud_kind == 4;
  let aud_claim: Option<&str> = if aud_kind <= 1 || aud_kind == 5 { Some(aud_values[0]) } else { None };
  let aud_opt = [None, Some("did:vx:verifier"), Some("did:vx:verifier2"), Some("")][src.other("aud-option", 4)];
  // iat: in range, first second of year 10000, last second of year -1, a string, an integral float, a fractional float, absent
  let iat_kind = src.other("iat", 7);
  let iat: i64 = [IAT0, 253_402_300_800, -62_167_219_201, IAT0, IAT0, IAT0, IAT0][iat_kind];
  // the instant the claim denotes (NumericDate), where it denotes one
  let iat_instant: Option<f64> = match iat_kind {
    5 => Some(IAT0 as f64 + 0.5),
    6 => None,
    _ => Some(iat as f64),
  };
  let earliest = [None, Some(IAT0), Some(IAT0 + 1), Some(IAT0 - 1)][src.other("earliest_issuance_date", 4)];
  let latest = [None, Some(IAT0), Some(IAT0 - 1), Some(IAT0 + 1)][src.other("latest_issuance_date", 4)];
  let clock = [IAT0 + 10, IAT0, IAT0 - 1][src.other("clock", 3)];
  let extra_claims = src.other("additional-claims", 2) == 1;
  // the options are a builder: the order of the calls must not matter (the signature options first, or last)
  let jws_last = src.other("builder order: jws_verifier_options last", 2) == 1;
  let case = mk(src.ch.seq());
  fx::set_now(clock);

  // ---- the issuer-signed token (valid, by m1) and the presented disclosures
  let claims = json!({
    "iss": I, "nbf": ISS_DATE, "jti": "https://issuer.example/credentials/3732", "sub": H, "exp": EXP_DATE,
    "vc": {"@context": ["https://www.w3.org/2018/credentials/v1"], "type": ["VerifiableCredential", "UniversityDegreeCredential"],
      "credentialSubject": subject_props()}
  });
  let built = sd_encode(&claims, true, sd_alg);
  let jwt = if issuer_jwt_garbage {
    "this is not a compact jws".to_string()
  } else {
    compact(&json!({"alg": "EdDSA", "typ": "JWT", "kid": "did:vx:issuer#m1"}), &built.payload, &built.payload, w.key(1))
  };
  let mut disclosures = present(&built.disclosures, &presented, Tamper::None);

  // ---- sd_hash (own SHA-256 + base64url over "<jwt>~<d1>~...~<dn>~"; with n = 0 the library's own presentation
  //      format is "<jwt>~~", the specification's is "<jwt>~": both are produced, neither is judged for n = 0)
  let over = |ds: &[String]| b64_sha256(&format!("{jwt}~{}~", ds.join("~")));
  let sd_hash: Option<String> = match hash {
    Hash::Right => Some(over(&disclosures)),
    Hash::OtherSubset => {
      let mut other = disclosures.clone();
      if other.is_empty() {
        other.push(built.disclosures[0].to_string());
      } else {
        other.remove(0);
      }
      Some(over(&other))
    }
    Hash::Garbage => Some("AAAAAAAAAAAAAAAAAAAAAAAAAAAAAAAAAAAAAAAAAAA".into()),
    Hash::TokenOnly => Some(b64_sha256(&format!("{jwt}~"))),
    Hash::Absent => None,
    Hash::Truncated => {
      let mut d = over(&disclosures);
      d.pop();
      Some(d)
    }
    Hash::FirstChar => Some(over(&disclosures)[..1].to_string()),
    Hash::Empty => Some(String::new()),
    Hash::Extended => Some(format!("{}A", over(&disclosures))),
    Hash::Padded => Some(format!("{}=", over(&disclosures))),
    Hash::CaseFlipped => {
      let d = over(&disclosures);
      match d.char_indices().find(|(_, c)| c.is_ascii_alphabetic()) {
        Some((i, c)) => {
          let flipped = if c.is_ascii_lowercase() { c.to_ascii_uppercase() } else { c.to_ascii_lowercase() };
          Some(format!("{}{}{}", &d[..i], flipped, &d[i + 1..]))
        }
        None => return ctx.require(false, "kb: the digest holds no letter whose case could be changed"),
      }
    }
    Hash::Reversed => {
      let mut r = disclosures.clone();
      r.reverse();
      Some(over(&r))
    }
    Hash::RepeatedAtEnd | Hash::RepeatedAdjacent => {
      let h = over(&disclosures);
      let first = disclosures[0].clone();
      if matches!(hash, Hash::RepeatedAtEnd) {
        disclosures.push(first);
      } else {
        disclosures.insert(1, first);
      }
      Some(h)
    }
  };

  // ---- KB-JWT
  let mut kb_claims = json!({});
  match iat_kind {
    3 => kb_claims["iat"] = json!(IAT0.to_string()),
    4 => kb_claims["iat"] = json!(IAT0 as f64),
    5 => kb_claims["iat"] = json!(IAT0 as f64 + 0.5),
    6 => {}
    _ => kb_claims["iat"] = json!(iat),
  }
  match aud_kind {
    0 | 1 | 5 => kb_claims["aud"] = json!(aud_values[0]),
    2 => {}
    _ => kb_claims["aud"] = json!(aud_values),
  }
  let extra: std::collections::BTreeMap<String, Value> = if extra_claims {
    [("vx_extra".to_string(), json!({"a": [1, 2]})), ("sub".to_string(), json!(H))].into_iter().collect()
  } else {
    Default::default()
  };
  for (k, v) in &extra {
    kb_claims[k.as_str()] = v.clone();
  }
  if let Some(n) = nonce_claim {
    kb_claims["nonce"] = json!(n);
  }
  if let Some(h) = &sd_hash {
    kb_claims["sd_hash"] = json!(h);
  }
  let kid_str: Option<&str> =
    [Some("did:vx:holder#h1"), Some("did:vx:holder#h2"), Some("did:vx:holder#nope"), Some("did:vx:mallory#h1"), Some("did:vx:foreign#hf"), None, Some("#h1")][kid];
  let mut header = json!({"alg": alg});
  if let Some(t) = typ {
    header["typ"] = json!(t);
  }
  if let Some(k) = kid_str {
    header["kid"] = json!(k);
  }
  let sign_key_no = [7u8, 8, 10, 7, 9][sig];
  let sign_key = w.key(sign_key_no);
  let signed = kb_claims.to_string();
  if (iat_kind == 4 && !signed.contains(".0")) || (iat_kind == 5 && !signed.contains(".5")) {
    ctx.require(false, "kb: the float iat was not serialised as a float");
  }
  let shipped = if sig == 3 {
    let mut c = kb_claims.clone();
    c["vx_added_after_signing"] = json!(true);
    c.to_string()
  } else {
    signed.clone()
  };
  let kb_jwt = compact(&header, &signed, &shipped, sign_key);
  let sd_jwt = SdJwt::new(jwt.clone(), disclosures.clone(), if kb_absent { None } else { Some(kb_jwt) });

  // ---- options
  let ovr_str: Option<&str> =
    [None, Some("did:vx:holder#h1"), Some("did:vx:holder#h2"), Some("did:vx:mallory#h1"), Some("did:vx:foreign#hf")][ovr];
  let mut vo = JwsVerificationOptions::new();
  if let Some(s) = scope.real() {
    vo = vo.method_scope(s);
  }
  if let Some(m) = ovr_str {
    vo = vo.method_id(DIDUrl::parse(m).unwrap());
  }
  let mut options = KeyBindingJWTValidationOptions::new();
  if !jws_last {
    options = options.jws_verifier_options(vo.clone());
  }
  if let Some(n) = nonce_opt {
    options = options.nonce(n);
  }
  if let Some(a) = aud_opt {
    options = options.aud(a);
  }
  if let Some(t) = earliest {
    options = options.earliest_issuance_date(fx::ts(t));
  }
  if let Some(t) = latest {
    options = options.latest_issuance_date(fx::ts(t));
  }
  if jws_last {
    options = options.jws_verifier_options(vo.clone());
  }

  // ---- expected false conditions
  let mut f: BTreeSet<String> = BTreeSet::new();
  let mut open: Vec<&str> = Vec::new();
  if kb_absent {
    f.insert("kb-present".into());
  } else {
    match typ {
      Some("kb+jwt") => {}
      // media type names are case-insensitive (RFC 7515 4.1.9 / RFC 2045): a typ differing in case only is left open
      Some("KB+JWT") => open.push("typ differs from kb+jwt in case only"),
      t => drop(f.insert(format!("typ:{}", typ_class(t)))),
    }
    let method_id: Option<&str> = match (ovr_str, kid) {
      (Some(m), _) => Some(m),
      (None, 5) => {
        f.insert("key-lookup:kid-absent".into());
        None
      }
      (None, 6) => {
        open.push("kid is only a fragment");
        None
      }
      (None, _) => kid_str,
    };
    if let Some(m) = method_id {
      let did = m.split('#').next().unwrap();
      if did != holder_doc && listed(holder_doc, m) {
        // "a key of the supplied holder document", though of another DID: whether such a method may bind is left open,
        // but if it does, it binds under ITS key, within the scope
        open.push("method of another DID listed in the supplied holder document");
      }
      match table_lookup(holder_doc, m, scope) {
        None => {
          let class = if listed(holder_doc, m) {
            "method-not-in-scope"
          } else if did != holder_doc {
            "method-of-another-document"
          } else {
            "method-not-in-document"
          };
          f.insert(format!("key-lookup:{class}"));
        }
        Some(info) => {
          if alg != "EdDSA" {
            f.insert("signature:alg-not-of-the-key".into());
          } else if sig == 3 {
            f.insert("signature:payload-changed".into());
          } else if info.key != sign_key_no {
            f.insert(format!("signature:{}", if key_doc(sign_key_no) != holder_doc || key_doc(info.key) != holder_doc { "key-of-another-document" } else { "key-of-another-method" }));
          }
        }
      }
    }
    match hash {
      Hash::Right => {
        if n_presented == 0 {
          open.push("sd_hash with no disclosure: '<jwt>~~' (library form)");
        }
      }
      Hash::TokenOnly => {
        if n_presented == 0 {
          open.push("sd_hash with no disclosure: '<jwt>~' (specification form)");
        } else {
          f.insert("sd_hash:over-token-without-disclosures".into());
        }
      }
      Hash::OtherSubset => drop(f.insert("sd_hash:over-other-disclosure-subset".into())),
      Hash::Garbage => drop(f.insert("sd_hash:garbage".into())),
      Hash::Absent => drop(f.insert("sd_hash:absent".into())),
      // a string of another length, or differing in one character, is not the digest whichever form it was made over
      Hash::Truncated | Hash::FirstChar => drop(f.insert("sd_hash:strict-prefix-of-the-digest".into())),
      Hash::Empty => drop(f.insert("sd_hash:empty".into())),
      Hash::Extended => drop(f.insert("sd_hash:digest-followed-by-another-character".into())),
      Hash::Padded => drop(f.insert("sd_hash:digest-with-padding".into())),
      Hash::CaseFlipped => drop(f.insert("sd_hash:digest-with-one-letter-in-other-case".into())),
      Hash::Reversed => drop(f.insert("sd_hash:over-reversed-disclosures".into())),
      Hash::RepeatedAtEnd | Hash::RepeatedAdjacent => drop(f.insert("sd_hash:over-the-presentation-without-its-repeated-disclosure".into())),
    }
    if let Some(n) = nonce_opt {
      match nonce_claim {
        None => drop(f.insert("nonce:claim-absent".into())),
        Some(c) if c != n => drop(f.insert(format!("nonce:{}", mismatch(c, n)))),
        _ => {}
      }
    }
    if nonce_claim.is_none() && nonce_opt.is_none() {
      open.push("nonce claim absent, no nonce required");
    }
    if let Some(a) = aud_opt {
      // an array-valued aud (RFC 7519 4.1.3) names every member
      if !aud_values.contains(&a) {
        let class = match aud_claim {
          Some(c) => mismatch(c, a),
          None if aud_values.is_empty() => "claim-absent",
          None => "differs",
        };
        f.insert(format!("aud:{class}"));
      }
    }
    if aud_kind == 2 && aud_opt.is_none() {
      open.push("aud claim absent, no aud required");
    }
    if aud_is_array {
      open.push("aud is an array");
    }
    match iat_instant {
      None => drop(f.insert("iat:absent".into())),
      Some(at) => {
        // whatever the JSON shape of the claim, the instant it denotes has to lie in the window
        let too_early = earliest.map_or(false, |e| at < e as f64);
        let too_late = match latest {
          Some(l) => at > l as f64,
          None => at > clock as f64,
        };
        if too_early {
          f.insert("iat:before-earliest".into());
        }
        if too_late {
          f.insert(format!("iat:{}", if latest.is_some() { "after-latest" } else { "after-now" }));
        }
        if iat_kind == 2 && !too_early {
          open.push("iat before year 0 without earliest bound");
        }
        match iat_kind {
          3 => open.push("iat is a string"),
          4 => open.push("iat is a float with an integral value"),
          5 => open.push("iat is a float with a fraction"),
          _ => {}
        }
      }
    }
    if extra_claims {
      open.push("KB-JWT carries additional claims");
    }
    if sd_alg == 1 {
      open.push("_sd_alg absent");
    }
    if sd_alg == 2 {
      open.push("_sd_alg names an algorithm without hasher");
      // sd_hash was made with sha-256: it is not the hash under the declared algorithm
      f.insert("sd_hash:hashed-with-another-algorithm-than-declared".into());
    }
    if issuer_jwt_garbage {
      open.push("issuer-signed part is not a JWS");
    }
  }
  let mut all_false = names(&f);
  if !kb_absent && (matches!(hash, Hash::Absent | Hash::Empty | Hash::Padded) || nonce_claim.is_none() || aud_kind == 2 || aud_is_array || iat_kind >= 3) {
    // a missing or mistyped member may be reported as such
    all_false.insert("claims-wellformed".into());
  }

  // ---- run
  let validator = SdJwtCredentialValidator::with_signature_verifier(EdDSAJwsVerifier::default(), SdObjectDecoder::new_with_sha256());
  let result = guard(|| validator.validate_key_binding_jwt(&sd_jwt, w.doc(holder_doc), &options));
  fx::set_now(NOW);
  let describe = || format!("{} | false: {:?} | open: {:?}", src.describe(), f, open);
  let label;
  match result {
    Err(p) => {
      ctx.violation(&format!("{KB}|{}", p.key()), &format!("{} @ {} | {}", p.msg, p.loc, describe()), &case);
      label = "panic".to_string();
    }
    Ok(Ok(got)) => {
      for c in &f {
        ctx.violation(&format!("{KB}|accepted|{c}"), &describe(), &case);
      }
      // the claims handed back are the signed ones (a fractional iat and an array aud have no counterpart in the types)
      let iat_same = iat_kind >= 5 || got.iat == iat;
      let aud_same = aud_is_array || Some(got.aud.as_str()) == aud_claim;
      if !iat_same || !aud_same || Some(got.nonce.as_str()) != nonce_claim || Some(&got.sd_hash) != sd_hash.as_ref() || got.properties != extra {
        ctx.violation(&format!("{KB}|accepted|returned-claims-differ-from-signed"), &format!("{got:?} | {}", describe()), &case);
      }
      label = "accepted".to_string();
    }
    Ok(Err(e)) => {
      let b = blame_kb(&e);
      // a variant the check does not know is judged only when nothing at all is false
      let justified = if b == "other" { !all_false.is_empty() } else { all_false.contains(b) };
      if open.is_empty() && !justified {
        ctx.violation(&format!("{KB}|rejected-blaming-a-condition-that-holds|{b}"), &format!("error: {e} / {e:?} | {}", describe()), &case);
      }
      label = format!("rejected:{}", kb_variant(&e));
    }
  }
  ctx.outcome(&format!("{part}:{label}"));
  if label != "rejected:MissingKeyBindingJwt" {
    ctx.distinct(&(part, src.core.map(|c| c.to_vec()), src.ch.seq()));
  }
  if src.ch.deviations() <= 1 && src.core.map_or(true, |c| c.iter().sum::<u32>() <= 1 && src.ch.deviations() == 0) {
    ctx.sample(part, &case);
  }
}

// ------------------------------------------------------------------------------------------------ driver
fn eval(ctx: &Ctx, case: &Case) {
  ctx.eval1();
  let c = case.clone();
  match case {
    Case::Issuer { seq } => {
      let mut ch = Chooser::replay(seq);
      issuer_body(ctx, &mut Src { ch: &mut ch, core: None, k: 0 }, &|seq| Case::Issuer { seq }, "issuer")
    }
    Case::IssuerCore { core, seq } => {
      if core.len() != ISSUER_CORE_DIMS.len() || core.iter().zip(ISSUER_CORE_DIMS).any(|(v, n)| *v as usize >= n) {
        return ctx.require(false, &format!("bad replay case {c:?}"));
      }
      let mut ch = Chooser::replay(seq);
      let core2 = core.clone();
      issuer_body(ctx, &mut Src { ch: &mut ch, core: Some(core), k: 0 }, &move |seq| Case::IssuerCore { core: core2.clone(), seq }, "issuer-core")
    }
    Case::Kb { seq } => {
      let mut ch = Chooser::replay(seq);
      kb_body(ctx, &mut Src { ch: &mut ch, core: None, k: 0 }, &|seq| Case::Kb { seq }, "kb")
    }
    Case::KbCore { core, seq } => {
      let dims: Vec<usize> = kb_core_dims().into_iter().chain([KB_HASHES]).collect();
      if (core.len() != 7 && core.len() != 8) || core.iter().zip(&dims).any(|(v, n)| *v as usize >= *n) {
        return ctx.require(false, &format!("bad replay case {c:?}"));
      }
      let mut ch = Chooser::replay(seq);
      let core2 = core.clone();
      kb_body(ctx, &mut Src { ch: &mut ch, core: Some(core), k: 0 }, &move |seq| Case::KbCore { core: core2.clone(), seq }, "kb-core")
    }
  }
}

fn product(dims: &[usize]) -> Vec<Vec<u32>> {
  let mut out = vec![vec![]];
  for n in dims {
    out = out.into_iter().flat_map(|p: Vec<u32>| (0..*n as u32).map(move |v| [p.clone(), vec![v]].concat())).collect();
  }
  out
}

/// Full product of the core tuple; below every tuple the remaining choice points with <= `bound` deviations
/// (0 for the tuples `wide` declines: they stay covered with the remaining points at their defaults).
fn core_part(
  ctx: &Ctx,
  part: &str,
  dims: &[usize],
  bound: u32,
  wide: &(dyn Fn(&[u32]) -> bool + Sync),
  narrowed: &str,
  run: &(dyn Fn(&Ctx, &[u32], &mut Chooser) + Sync),
) {
  let tuples = product(dims);
  let agg = std::sync::Mutex::new((0u64, 0u64, 0u64, 0u64, true));
  tuples.par_iter().for_each(|t| {
    let st = choice::explore(Some(if wide(t) { bound } else { 0 }), |ch| run(ctx, t, ch));
    let mut a = agg.lock().unwrap();
    a.0 += st.executions;
    a.1 += st.states;
    a.2 += st.transitions;
    a.3 = a.3.max(st.max_depth);
    a.4 &= st.exhaustive;
  });
  let a = agg.into_inner().unwrap();
  ctx.add_states(a.1);
  ctx.add_transitions(a.2);
  ctx.add_traces(a.0);
  ctx.add_evals(a.0);
  if !a.4 {
    ctx.cap_hit(&format!("{part}: core tuple complete; the other choice points limited to {bound} deviation(s){narrowed} (complete up to that bound)"));
  }
  ctx.part(
    part,
    json!({"engine": "full product x E1 choice DFS", "core_tuples": tuples.len(), "core_dims": dims, "other_deviation_bound": format!("{bound}{narrowed}"),
      "executions": a.0, "choice_tree_nodes": a.1, "edges": a.2, "max_depth": a.3}),
  );
}

fn generate(ctx: &Ctx) {
  ctx.rule("E1 choice DFS over hand-assembled, harness-signed SD-JWTs and KB-JWTs; alternative 0 of every point is the benign one. (a),(c): every choice sequence with at most B deviations; (b),(d): full product of the binding-core tuple crossed with at most B' deviations of the remaining points. distinct_nontrivial = distinct (part, core tuple, choice sequence) whose outcome is not the trivial early reject (undecodable token / KB-JWT absent)");
  ctx.assume("Ed25519 (iota-crypto) signing in the harness and SHA-256 (sha2) are correct; sd-jwt-payload 0.2's SdObjectEncoder::conceal with fixed salts produces the disclosures and digests of the draft (the decoder side is under test together with the validator)");
  ctx.assume("the document table in the check (METHODS) describes the documents built from it through CoreDocument::builder; method resolution itself is the subject of C04/C02");
  ctx.assume("left open (executed, recorded, rejections not judged; an acceptance still has to satisfy every condition that can be evaluated): kid given as a fragment, issuer with DID URL parts, a disclosure presented twice / in reversed order, a digest of a presented disclosure occurring twice in the signed claims, _sd_alg absent or naming an algorithm without hasher, a method of another DID listed in the supplied holder document, typ differing from kb+jwt in case only, iat as string or float, aud as array, additional KB-JWT claims, absent nonce/aud claim with no value required, iat before year 0 without earliest bound");
  ctx.assume("typ: the property says `kb+jwt`; sd-jwt-payload 0.2.1 publishes KB_JWT_HEADER_TYP = \" kb+jwt\" (leading space). Alternative 0 of the typ point is the literal `kb+jwt` if the validator accepts the benign token typed so, else the library constant (see bounds.typ_alphabet); the oracle judges against the literal in either case");
  Lazy::force(&WORLD);
  let b = ctx.by_tier(3u32, 4u32);
  ctx.bound("deviation_bound", b);
  ctx.bound("core_product_other_deviations", ctx.by_tier(0u32, 1u32));
  ctx.bound("issuer_core_dims(entry+trusted-list,key,kid,method_id,scope,iss,nonce-pair)", ISSUER_CORE_DIMS);
  ctx.bound("issuer_entries", ENTRY);
  ctx.bound("kb_core_dims(typ,alg,key,kid,method_id,scope,holder-document)", kb_core_dims());
  ctx.bound("typ_alphabet", typ_alphabet());

  choice::explore_into(ctx, "issuer", Some(b), |ch| issuer_body(ctx, &mut Src { ch, core: None, k: 0 }, &|seq| Case::Issuer { seq }, "issuer"));
  choice::explore_into(ctx, "kb", Some(b), |ch| kb_body(ctx, &mut Src { ch, core: None, k: 0 }, &|seq| Case::Kb { seq }, "kb"));
  let b2 = ctx.by_tier(0u32, 1u32);
  // tuples whose header nonce differs from the option are widened only in part (a): 3 of the 5 nonce pairs
  core_part(ctx, "issuer-core", &ISSUER_CORE_DIMS, b2, &|t| t[6] <= 1, if b2 > 0 { " (0 where header nonce != option nonce)" } else { "" }, &|ctx, t, ch| {
    let core = t.to_vec();
    issuer_body(ctx, &mut Src { ch, core: Some(t), k: 0 }, &move |seq| Case::IssuerCore { core: core.clone(), seq }, "issuer-core")
  });
  // quick: no other deviation, so the sd_hash alternatives join the core tuple; thorough: they are among the <= 1 other
  // deviations of every core tuple anyway
  let kb_dims: Vec<usize> = if b2 == 0 { kb_core_dims().into_iter().chain([KB_HASHES]).collect() } else { kb_core_dims().to_vec() };
  ctx.bound("kb_core_sd_hash_in_tuple", b2 == 0);
  core_part(ctx, "kb-core", &kb_dims, b2, &|_| true, "", &|ctx, t, ch| {
    let core = t.to_vec();
    kb_body(ctx, &mut Src { ch, core: Some(t), k: 0 }, &move |seq| Case::KbCore { core: core.clone(), seq }, "kb-core")
  });
  let _ = Timestamp::now_utc();
}

fn main() {
  vx::run_main::<Case, _, _>("C16", Level::ModelChecking, generate, eval)
}
