//! C17 — IOTA DIDs are normalised, decomposable, equal iff network and tag agree.
//!
//! (a) E1 full product: scheme × method × network segment × tag × suffix × prefix strings through
//!     `IotaDID::{parse, from_str, try_from(&str|String)}` (family "IotaDID::parse") and, via a `CoreDID` /
//!     `BaseDIDUrl` / JSON string, through `IotaDID::{try_from_core, try_from(CoreDID), try_from(BaseDIDUrl),
//!     deserialize}` (family "IotaDID::try_from_core").
//! (b) single-character substitutions at every tag position; every network name over a small alphabet embedded
//!     in a DID.
//! (c) `NetworkName::{try_from, validate_network_name, deserialize}` on all strings ≤ n over a small alphabet.
//! (d) constructors `new`, `placeholder`, `from_alias_id` on structured tags × all short valid network names.
//! (e) pairwise equality / Ord / Hash over a pool of clean values reached through every construction path.

use identity_did::{BaseDIDUrl, CoreDID, DID};
use identity_iota_core::{IotaDID, NetworkName};
use serde::{Deserialize, Serialize};
use std::cmp::Ordering;
use std::collections::hash_map::DefaultHasher;
use std::collections::BTreeMap;
use std::hash::{Hash, Hasher};
use std::str::FromStr;
use vx::rayon::prelude::*;
use vx::{guard, json, Ctx, Level, Panicked};

// ------------------------------------------------------------------------------------------------ cases

/// How a value of the comparison pool is built.
#[derive(Serialize, Deserialize, Debug, Clone, PartialEq)]
struct Build {
  /// 0 parse(lower) 1 parse(UPPER) 2 parse with the network written explicitly 3 from_str 4 try_from_core
  /// 5 try_from(BaseDIDUrl) 6 deserialize 7 new(bytes, name) 8 from_alias_id 9 placeholder (tag must be zero)
  path: u8,
  network: String,
  /// 64 lowercase hex digits
  tag: String,
}

#[derive(Serialize, Deserialize, Debug, Clone, PartialEq)]
enum Case {
  /// one string through every string / CoreDID / serde entry point
  Str { s: String },
  /// one candidate network name through NetworkName::{try_from, validate_network_name, deserialize}
  Net { name: String },
  /// `IotaDID::new(tag, NetworkName::try_from(network))`, `placeholder`
  New { tag: String, network: String },
  /// `IotaDID::from_alias_id(alias, NetworkName::try_from(network))`
  Alias { alias: String, network: String },
  Eq { a: Build, b: Build },
  Trans { a: Build, b: Build, c: Build },
  /// `IotaDID::parse(s)` then the owning conversion to `String` (via 0 `String::from`, 1 `DID::into_string`,
  /// 2 `Into::<String>::into`), executed in a child process because a non-returning call cannot be guarded
  IntoString { s: String, via: u8 },
}

#[derive(Default)]
struct Local {
  outcomes: BTreeMap<String, u64>,
  distinct: Vec<u64>,
  evals: u64,
}
impl Local {
  fn outcome(&mut self, l: impl Into<String>) {
    *self.outcomes.entry(l.into()).or_insert(0) += 1;
  }
  fn distinct<K: Hash>(&mut self, k: &K) {
    self.distinct.push(Ctx::hash_of(k));
  }
  fn merge(self, ctx: &Ctx) {
    ctx.outcomes_merge(&self.outcomes);
    ctx.distinct_many(self.distinct);
    ctx.add_evals(self.evals);
  }
}

fn pkey(p: &Panicked) -> String {
  let file = p.loc.rsplit_once(':').map(|(f, _)| f).unwrap_or(&p.loc);
  let head = p.msg.split(['`', '"', '\'']).next().unwrap_or("");
  let mut m: String = head.chars().map(|c| if c.is_ascii_digit() { '#' } else { c }).collect();
  while m.contains("##") {
    m = m.replace("##", "#");
  }
  let m: String = m.trim().trim_end_matches(':').chars().take(48).collect();
  format!("panic@{file}:{m}")
}
fn hash_of<T: Hash>(t: &T) -> u64 {
  let mut h = DefaultHasher::new();
  t.hash(&mut h);
  h.finish()
}

// ------------------------------------------------------------------------------------------------ reference model
// From the property statement and the IOTA DID method specification:
//   iota-did = "did:iota:" [ network ":" ] tag      network = 1*6( %x61-7A / DIGIT )   tag = "0x" 64 lower HEXDIG
//   normal form: lowercase, the default network "iota" is not written.

fn valid_network(n: &str) -> bool {
  (1..=6).contains(&n.len()) && n.bytes().all(|c| c.is_ascii_lowercase() || c.is_ascii_digit())
}
fn ws_or_ctl(c: char) -> bool {
  c.is_whitespace() || c.is_control()
}
fn hex_val(c: u8) -> Option<u8> {
  match c {
    b'0'..=b'9' => Some(c - b'0'),
    b'a'..=b'f' => Some(c - b'a' + 10),
    b'A'..=b'F' => Some(c - b'A' + 10),
    _ => None,
  }
}
/// "0x" + 64 hex digits, any case of the digits and of the "x"  →  bytes
fn tag_bytes_any_case(tag: &str) -> Option<[u8; 32]> {
  let b = tag.as_bytes();
  if b.len() != 66 || b[0] != b'0' || (b[1] != b'x' && b[1] != b'X') {
    return None;
  }
  let mut out = [0u8; 32];
  for i in 0..32 {
    out[i] = hex_val(b[2 + 2 * i])? << 4 | hex_val(b[3 + 2 * i])?;
  }
  Some(out)
}
fn hex_lower(bytes: &[u8]) -> String {
  bytes.iter().map(|b| format!("{b:02x}")).collect()
}

/// Is `v` an IOTA DID in normal form?  Ok((network, tag bytes)) or the first failing clause.
fn normal_form(v: &str) -> Result<(&str, [u8; 32]), &'static str> {
  if v.chars().next().map(ws_or_ctl).unwrap_or(false) {
    return Err("leading-whitespace");
  }
  if v.chars().last().map(ws_or_ctl).unwrap_or(false) {
    return Err("trailing-whitespace");
  }
  let rest = v.strip_prefix("did:").ok_or("bad-scheme")?;
  let rest = rest.strip_prefix("iota:").ok_or("method-not-iota")?;
  if rest.contains(['/', '?', '#']) {
    return Err("has-path-query-or-fragment");
  }
  let segs: Vec<&str> = rest.split(':').collect();
  let (net, explicit, tag) = match segs.as_slice() {
    [tag] => ("iota", false, *tag),
    [net, tag] => (*net, true, *tag),
    _ => return Err("too-many-segments"),
  };
  if !valid_network(net) {
    return Err(if valid_network(&net.to_ascii_lowercase()) { "network-not-lowercase" } else { "invalid-network-name" });
  }
  if explicit && net == "iota" {
    return Err("default-network-not-omitted");
  }
  let bytes = tag_bytes_any_case(tag).ok_or("invalid-tag")?;
  if tag.bytes().any(|c| c.is_ascii_uppercase()) {
    return Err("tag-not-lowercase");
  }
  Ok((net, bytes))
}

/// What an ASCII input denotes when read case-insensitively: (network, tag bytes); None if it is not an IOTA DID.
fn denotes(s: &str) -> Option<(String, [u8; 32])> {
  let l = s.to_ascii_lowercase();
  let rest = l.strip_prefix("did:iota:")?;
  let segs: Vec<&str> = rest.split(':').collect();
  let (net, tag) = match segs.as_slice() {
    [tag] => ("iota", *tag),
    [net, tag] => (*net, *tag),
    _ => return None,
  };
  if !valid_network(net) {
    return None;
  }
  Some((net.to_owned(), tag_bytes_any_case(tag)?))
}

// ------------------------------------------------------------------------------------------------ judge

/// Judge an accepted value. `family` is the key prefix (code site), `via` the concrete entry point, `input`
/// what it was given. Returns true iff the value is clean.
fn judge(ctx: &Ctx, family: &str, via: &str, input: &str, v: &IotaDID, case: &Case) -> bool {
  // the "denotes what was given" clause belongs to the constructor when one was used
  let site = if via == "IotaDID::new" || via == "IotaDID::from_alias_id" { via } else { family };
  let vs = match guard(|| v.as_str().to_owned()) {
    Ok(s) => s,
    Err(p) => {
      ctx.violation(&format!("{family}|string-form|{}", pkey(&p)), &format!("{via}({input:?}): {}", p.msg), case);
      return false;
    }
  };
  let (net, tag) = match normal_form(&vs) {
    Ok(x) => x,
    Err(class) => {
      let acc = guard(|| (v.method().to_owned(), v.network_str().to_owned(), v.tag_str().to_owned()));
      ctx.violation(
        &format!("{family}|accepted|{class}"),
        &format!("{via}({input:?}) accepted; the value {vs:?} is not an IOTA DID in normal form ({class}); (method, network_str, tag_str) = {:?}", acc.ok()),
        case,
      );
      return false;
    }
  };
  // string forms
  // (`String::from(IotaDID)` / `into_string` are probed in a child process: see `probe_into_string`)
  let forms = guard(|| (v.to_string(), format!("{v}"), <IotaDID as AsRef<CoreDID>>::as_ref(v).as_str().to_owned(), serde_json::to_value(v).ok(), CoreDID::from(v.clone()).as_str().to_owned()));
  match forms {
    Err(p) => {
      ctx.violation(&format!("{family}|string-form|{}", pkey(&p)), &format!("{via}({input:?}): {}", p.msg), case);
      return false;
    }
    Ok(f) => {
      if f.0 != vs || f.1 != vs || f.2 != vs || f.3 != Some(json!(vs)) || f.4 != vs {
        ctx.violation(&format!("{family}|string-forms-disagree"), &format!("{via}({input:?}): as_str {vs:?}, others {f:?}"), case);
        return false;
      }
    }
  }
  // accessors recompose
  let acc = guard(|| (v.scheme().to_owned(), v.method().to_owned(), v.method_id().to_owned(), v.network_str().to_owned(), v.tag_str().to_owned(), v.is_placeholder()));
  match acc {
    Err(p) => {
      ctx.violation(&format!("{family}|accessor|{}", pkey(&p)), &format!("{via}({input:?}) = {vs:?}: {}", p.msg), case);
      return false;
    }
    Ok((scheme, method, method_id, network_str, tag_str, placeholder)) => {
      let want_tag = format!("0x{}", hex_lower(&tag));
      let recomposed = if network_str == "iota" { format!("did:{method}:{tag_str}") } else { format!("did:{method}:{network_str}:{tag_str}") };
      if scheme != "did" || method != "iota" || network_str != net || tag_str != want_tag || recomposed != vs || format!("did:{method}:{method_id}") != vs {
        ctx.violation(
          &format!("{family}|accessors-do-not-recompose"),
          &format!("{via}({input:?}) = {vs:?}: method {method:?} method_id {method_id:?} network_str {network_str:?} tag_str {tag_str:?}"),
          case,
        );
        return false;
      }
      if placeholder != (tag == [0u8; 32]) {
        ctx.violation(&format!("{family}|is_placeholder-wrong"), &format!("{vs:?}: {placeholder}"), case);
        return false;
      }
    }
  }
  // re-parses from its string form to an equal value
  match guard(|| IotaDID::parse(&vs)) {
    Ok(Ok(back)) => {
      if back != *v || back.as_str() != vs || hash_of(&back) != hash_of(v) || back.cmp(v) != Ordering::Equal {
        ctx.violation(&format!("{family}|reparse-differs"), &format!("{via}({input:?}) = {vs:?}, re-parsed {:?}", back.as_str()), case);
        return false;
      }
    }
    Ok(Err(e)) => {
      ctx.violation(&format!("{family}|reparse-rejected"), &format!("{via}({input:?}) = {vs:?} does not re-parse: {e}"), case);
      return false;
    }
    Err(p) => {
      ctx.violation(&format!("IotaDID::parse|{}", pkey(&p)), &format!("re-parsing {vs:?}: {}", p.msg), case);
      return false;
    }
  }
  // the value denotes what the (ASCII) input denotes
  if input.is_ascii() {
    match denotes(input) {
      Some((n, t)) => {
        if n != net || t != tag {
          ctx.violation(&format!("{site}|value-denotes-other-network-or-tag"), &format!("{via}({input:?}) = {vs:?}"), case);
          return false;
        }
      }
      None => {
        ctx.violation(&format!("{family}|accepted|input-not-an-iota-did"), &format!("{via}({input:?}) = {vs:?}: the input is not an IOTA DID even when read case-insensitively"), case);
        return false;
      }
    }
  }
  true
}

#[derive(Debug, Clone, PartialEq)]
enum Sig {
  Ok(String),
  Err,
  Panic(String),
}
fn sig<E>(r: &Result<Result<IotaDID, E>, Panicked>) -> Sig {
  match r {
    Ok(Ok(v)) => guard(|| v.as_str().to_owned()).map(Sig::Ok).unwrap_or_else(|p| Sig::Panic(pkey(&p))),
    Ok(Err(_)) => Sig::Err,
    Err(p) => Sig::Panic(pkey(p)),
  }
}
fn sig_label(s: &Sig) -> &'static str {
  match s {
    Sig::Ok(_) => "Ok",
    Sig::Err => "Err",
    Sig::Panic(_) => "PANIC",
  }
}

fn eval_str(ctx: &Ctx, s: &str, l: &mut Local) {
  l.evals += 1;
  let case = Case::Str { s: s.to_owned() };
  // ---- family parse
  let r = guard(|| IotaDID::parse(s));
  let sp = sig(&r);
  match &r {
    Err(p) => {
      // a panic that already happens in CoreDID::parse of the lower-cased input is CoreDID's (property C10)
      let inner = guard(|| CoreDID::parse(s.to_lowercase()).is_ok());
      let entry = if inner.is_err() { "CoreDID::parse" } else { "IotaDID::parse" };
      ctx.violation(&format!("{entry}|{}", pkey(p)), &format!("IotaDID::parse({s:?}): {}", p.msg), &case);
    }
    Ok(Ok(v)) => {
      judge(ctx, "IotaDID::parse", "IotaDID::parse", s, v, &case);
    }
    Ok(Err(_)) => {}
  }
  for (name, o) in [
    ("IotaDID::from_str", sig(&guard(|| IotaDID::from_str(s)))),
    ("IotaDID::try_from(&str)", sig(&guard(|| IotaDID::try_from(s)))),
    ("IotaDID::try_from(String)", sig(&guard(|| IotaDID::try_from(s.to_owned())))),
  ] {
    if o != sp {
      ctx.violation(&format!("{name}|differs-from-parse"), &format!("input {s:?}: parse {sp:?}, {name} {o:?}"), &case);
    }
  }
  // ---- family try_from_core (no lower-casing on this path)
  let core = guard(|| CoreDID::parse(s));
  let mut st = Sig::Err;
  let mut core_label = "CoreDID=Err";
  match core {
    Err(_) => core_label = "CoreDID=PANIC", // reported by C10
    Ok(Err(_)) => {}
    Ok(Ok(core)) => {
      core_label = "CoreDID=Ok";
      let r = guard(|| IotaDID::try_from_core(core.clone()));
      st = sig(&r);
      match &r {
        Err(p) => ctx.violation(&format!("IotaDID::try_from_core|{}", pkey(p)), &format!("try_from_core(CoreDID {s:?}): {}", p.msg), &case),
        Ok(Ok(v)) => {
          judge(ctx, "IotaDID::try_from_core", "IotaDID::try_from_core", s, v, &case);
        }
        Ok(Err(_)) => {}
      }
      let o = sig(&guard(|| IotaDID::try_from(core.clone())));
      if o != st {
        ctx.violation("IotaDID::try_from(CoreDID)|differs-from-try_from_core", &format!("input {s:?}: {st:?} vs {o:?}"), &case);
      }
      // the validity predicates agree with the conversion
      let valid = guard(|| (IotaDID::is_valid(&core), IotaDID::check_validity(&core).is_ok()));
      if let Ok((a, b)) = valid {
        if a != b || a != matches!(st, Sig::Ok(_)) {
          ctx.violation("IotaDID::is_valid|disagrees-with-try_from_core", &format!("input {s:?}: is_valid {a}, check_validity {b}, try_from_core {st:?}"), &case);
        }
      }
    }
  }
  // TryFrom<BaseDIDUrl> and serde reach try_from_core through CoreDID::try_from(BaseDIDUrl)
  // (a panic or error of `BaseDIDUrl::parse` itself, called here by the harness, is not the library's)
  let rb = match guard(|| BaseDIDUrl::parse(s)) {
    Ok(Ok(base)) => guard(|| IotaDID::try_from(base)),
    _ => Ok(Err(identity_did::Error::Other("BaseDIDUrl::parse refused the input"))),
  };
  match &rb {
    Err(p) => ctx.violation(&format!("IotaDID::try_from_core|{}", pkey(p)), &format!("IotaDID::try_from(BaseDIDUrl {s:?}): {}", p.msg), &case),
    Ok(Ok(v)) => {
      judge(ctx, "IotaDID::try_from_core", "IotaDID::try_from(BaseDIDUrl)", s, v, &case);
    }
    Ok(Err(_)) => {}
  }
  let rd = guard(|| serde_json::from_value::<IotaDID>(json!(s)));
  match &rd {
    Err(p) => {
      // serde reaches the CoreDID layer first: a panic there is CoreDID's (property C10)
      let inner = guard(|| serde_json::from_value::<CoreDID>(json!(s)).is_ok());
      let entry = if inner.is_err() { "CoreDID::deserialize" } else { "IotaDID::try_from_core" };
      ctx.violation(&format!("{entry}|{}", pkey(p)), &format!("IotaDID deserialized from {s:?}: {}", p.msg), &case);
    }
    Ok(Ok(v)) => {
      judge(ctx, "IotaDID::try_from_core", "IotaDID::deserialize", s, v, &case);
    }
    Ok(Err(_)) => {}
  }
  let (sb, sd) = (sig(&rb), sig(&rd));
  let den = if s.is_ascii() {
    match (denotes(s), normal_form(s).is_ok()) {
      (_, true) => "normal-form",
      (Some(_), false) => "iota-did-not-normal-form",
      (None, _) => "not-an-iota-did",
    }
  } else {
    "non-ascii"
  };
  l.outcome(format!("str: input={den} parse={} {core_label} try_from_core={} try_from(BaseDIDUrl)={} deserialize={}", sig_label(&sp), sig_label(&st), sig_label(&sb), sig_label(&sd)));
  let trivial = den == "not-an-iota-did" && sp == Sig::Err && st == Sig::Err && sb == Sig::Err && sd == Sig::Err;
  if !trivial {
    l.distinct(&(1u8, s));
  }
}

fn eval_net(ctx: &Ctx, name: &str, l: &mut Local) {
  l.evals += 1;
  let case = Case::Net { name: name.to_owned() };
  let want = valid_network(name);
  let r = guard(|| NetworkName::try_from(name.to_owned()));
  let r2 = guard(|| <NetworkName as TryFrom<String>>::try_from(name.to_owned()));
  let r3 = guard(|| NetworkName::validate_network_name(name).is_ok());
  match (&r, &r2, &r3) {
    (Ok(a), Ok(b), Ok(c)) => {
      if a.is_ok() != b.is_ok() || a.is_ok() != *c {
        ctx.violation("NetworkName::try_from|entry-points-disagree", &format!("{name:?}: try_from {} TryFrom<String> {} validate {}", a.is_ok(), b.is_ok(), c), &case);
      }
      match a {
        Ok(n) => {
          if !want {
            ctx.violation("NetworkName::try_from|accepted|invalid-network-name", &format!("{name:?}"), &case);
          } else if n.as_ref() != name || n.to_string() != name || format!("{n:?}") != name {
            ctx.violation("NetworkName::try_from|name-not-verbatim", &format!("{name:?} -> {:?}", n.as_ref()), &case);
          }
        }
        Err(_) => {
          if want {
            ctx.violation("NetworkName::try_from|valid-name-rejected", &format!("{name:?}"), &case);
          }
        }
      }
    }
    _ => {
      let p = r.as_ref().err().or(r2.as_ref().err()).or(r3.as_ref().err()).expect("one panicked");
      ctx.violation(&format!("NetworkName::try_from|{}", pkey(p)), &format!("{name:?}: {}", p.msg), &case);
    }
  }
  // serde
  let rs = guard(|| serde_json::from_value::<NetworkName>(json!(name)));
  let mut de = "Err";
  match rs {
    Err(p) => ctx.violation(&format!("NetworkName::deserialize|{}", pkey(&p)), &format!("{name:?}: {}", p.msg), &case),
    Ok(Err(_)) => {
      if want {
        ctx.violation("NetworkName::deserialize|valid-name-rejected", &format!("{name:?}"), &case);
      }
    }
    Ok(Ok(n)) => {
      de = "Ok";
      if !want {
        // what the constructors do with such a name (they are documented as infallible)
        let built = guard(|| IotaDID::new(&[7u8; 32], &n).as_str().to_owned());
        let placeholder = guard(|| IotaDID::placeholder(&n).as_str().to_owned());
        ctx.violation(
          "NetworkName::deserialize|accepted|invalid-network-name",
          &format!(
            "NetworkName deserialized from {:?} holds {:?}; IotaDID::new with it: {}; placeholder: {}",
            json!(name).to_string(),
            n.as_ref(),
            match &built {
              Ok(s) => format!("returns {s:?}"),
              Err(p) => format!("panics ({})", p.msg.chars().take(60).collect::<String>()),
            },
            match &placeholder {
              Ok(s) => format!("returns {s:?}"),
              Err(_) => "panics".to_string(),
            }
          ),
          &case,
        );
      } else if n.as_ref() != name {
        ctx.violation("NetworkName::deserialize|name-not-verbatim", &format!("{name:?} -> {:?}", n.as_ref()), &case);
      }
      if serde_json::to_value(&n).ok() != Some(json!(name)) {
        ctx.violation("NetworkName::serialize|not-the-name", &format!("{name:?}"), &case);
      }
    }
  }
  l.outcome(format!("net: valid={want} try_from={} deserialize={de}", if matches!(r, Ok(Ok(_))) { "Ok" } else { "Err" }));
  if want || de == "Ok" {
    l.distinct(&(2u8, name));
  }
}

fn tag_from_hex(tag: &str) -> Option<[u8; 32]> {
  tag_bytes_any_case(&format!("0x{tag}"))
}

fn eval_new(ctx: &Ctx, tag: &str, network: &str, l: &mut Local) {
  l.evals += 1;
  let case = Case::New { tag: tag.to_owned(), network: network.to_owned() };
  let (Some(bytes), Ok(Ok(name))) = (tag_from_hex(tag), guard(|| NetworkName::try_from(network.to_owned()))) else {
    l.outcome("new: tag or network not constructible (not judged)");
    return;
  };
  if !valid_network(network) {
    l.outcome("new: network accepted by try_from but invalid (judged by Net case)");
    return;
  }
  match guard(|| IotaDID::new(&bytes, &name)) {
    Err(p) => ctx.violation(&format!("IotaDID::new|valid-arguments|{}", pkey(&p)), &format!("new({tag}, {network:?}): {}", p.msg), &case),
    Ok(v) => {
      let want = if network == "iota" { format!("did:iota:0x{tag}") } else { format!("did:iota:{network}:0x{tag}") };
      if judge(ctx, "IotaDID::parse", "IotaDID::new", &want, &v, &case) {
        let ok = guard(|| v.as_str() == want && v.network_str() == network && tag_bytes_any_case(v.tag_str()) == Some(bytes)).unwrap_or(false);
        if !ok {
          ctx.violation("IotaDID::new|exposes-other-tag-or-network", &format!("new({tag}, {network:?}) = {:?}", v.as_str()), &case);
        }
      }
      l.outcome("new: returned");
      l.distinct(&(3u8, tag, network));
    }
  }
  if bytes == [0u8; 32] {
    match guard(|| IotaDID::placeholder(&name)) {
      Err(p) => ctx.violation(&format!("IotaDID::placeholder|valid-arguments|{}", pkey(&p)), &p.msg, &case),
      Ok(v) => {
        let ok = guard(|| v.is_placeholder() && v.network_str() == network && v.tag_str() == IotaDID::PLACEHOLDER_TAG && IotaDID::parse(v.as_str()).ok().as_ref() == Some(&v)).unwrap_or(false);
        if !ok {
          ctx.violation("IotaDID::placeholder|not-the-placeholder-of-that-network", &format!("placeholder({network:?}) = {:?}", v.as_str()), &case);
        }
      }
    }
  }
}

fn eval_alias(ctx: &Ctx, alias: &str, network: &str, l: &mut Local) {
  l.evals += 1;
  let case = Case::Alias { alias: alias.to_owned(), network: network.to_owned() };
  let Ok(Ok(name)) = guard(|| NetworkName::try_from(network.to_owned())) else {
    l.outcome("from_alias_id: network not constructible (not judged)");
    return;
  };
  match guard(|| IotaDID::from_alias_id(alias, &name)) {
    // documented as a constructor from "a hex representation of an Alias Id"; what it does with anything else
    // is outside the statement (swept by C05) — recorded only
    Err(p) => {
      if tag_bytes_any_case(alias).is_some() && valid_network(network) {
        ctx.violation(&format!("IotaDID::from_alias_id|valid-arguments|{}", pkey(&p)), &format!("from_alias_id({alias:?}, {network:?}): {}", p.msg), &case);
      }
      l.outcome(if tag_bytes_any_case(alias).is_some() { "from_alias_id: PANIC on a hex alias id" } else { "from_alias_id: panic on a non-alias-id (not judged)" })
    }
    Ok(v) => {
      let given = format!("did:iota:{network}:{alias}");
      if judge(ctx, "IotaDID::parse", "IotaDID::from_alias_id", &given, &v, &case) {
        let ok = guard(|| v.network_str() == network && tag_bytes_any_case(v.tag_str()) == tag_bytes_any_case(alias)).unwrap_or(false);
        if !ok {
          ctx.violation("IotaDID::from_alias_id|exposes-other-tag-or-network", &format!("from_alias_id({alias:?}, {network:?}) = {:?}", v.as_str()), &case);
        }
      }
      l.outcome("from_alias_id: returned");
      l.distinct(&(4u8, alias, network));
    }
  }
}

/// Build a pool value; None when the path does not accept (recorded by the Str cases) or the value is not clean.
fn build(b: &Build) -> Option<IotaDID> {
  let lower = if b.network == "iota" { format!("did:iota:0x{}", b.tag) } else { format!("did:iota:{}:0x{}", b.network, b.tag) };
  let explicit = format!("did:iota:{}:0x{}", b.network, b.tag);
  let bytes = tag_from_hex(&b.tag)?;
  let r = guard(|| -> Option<IotaDID> {
    match b.path {
      0 => IotaDID::parse(&lower).ok(),
      1 => IotaDID::parse(lower.to_ascii_uppercase().replace("0X", "0x")).ok(),
      2 => IotaDID::parse(&explicit).ok(),
      3 => IotaDID::from_str(&lower).ok(),
      4 => IotaDID::try_from_core(CoreDID::parse(&lower).ok()?).ok(),
      5 => IotaDID::try_from(BaseDIDUrl::parse(&lower).ok()?).ok(),
      6 => serde_json::from_value::<IotaDID>(json!(lower)).ok(),
      7 => Some(IotaDID::new(&bytes, &NetworkName::try_from(b.network.clone()).ok()?)),
      8 => Some(IotaDID::from_alias_id(&format!("0x{}", b.tag), &NetworkName::try_from(b.network.clone()).ok()?)),
      _ => (bytes == [0u8; 32]).then(|| NetworkName::try_from(b.network.clone()).ok()).flatten().map(|n| IotaDID::placeholder(&n)),
    }
  });
  let v = r.ok()??;
  // only clean values enter the comparison pool (others are reported where they are produced)
  let (net, tag) = normal_form(v.as_str()).ok()?;
  (net == b.network && tag == bytes).then_some(v)
}

fn eval_eq(ctx: &Ctx, a: &Build, b: &Build, x: &IotaDID, y: &IotaDID, l: &mut Local) -> Ordering {
  l.evals += 1;
  let case = || Case::Eq { a: a.clone(), b: b.clone() };
  let same = a.network == b.network && a.tag == b.tag;
  let eq = x == y;
  let (xy, yx) = (x.cmp(y), y.cmp(x));
  if eq != same {
    ctx.violation(
      if same { "IotaDID::eq|same-network-and-tag|not-equal" } else { "IotaDID::eq|different-network-or-tag|equal" },
      &format!("{:?} (path {}) vs {:?} (path {})", x.as_str(), a.path, y.as_str(), b.path),
      &case(),
    );
  }
  if eq != (y == x) {
    ctx.violation("IotaDID::eq|not-symmetric", "", &case());
  }
  if eq != (xy == Ordering::Equal) || xy != yx.reverse() || x.partial_cmp(y) != Some(xy) {
    ctx.violation("IotaDID::cmp|disagrees-with-eq", &format!("{:?} vs {:?}: eq {eq} cmp {xy:?}/{yx:?}", x.as_str(), y.as_str()), &case());
  }
  if eq && hash_of(x) != hash_of(y) {
    ctx.violation("IotaDID::hash|equal-values-hash-differently", &format!("{:?}", x.as_str()), &case());
  }
  l.outcome(if eq { "eq: equal" } else { "eq: unequal" });
  xy
}

fn transitive(xy: Ordering, yz: Ordering, xz: Ordering) -> bool {
  use Ordering::*;
  match (xy, yz) {
    (Less, Less) | (Less, Equal) | (Equal, Less) => xz == Less,
    (Greater, Greater) | (Greater, Equal) | (Equal, Greater) => xz == Greater,
    (Equal, Equal) => xz == Equal,
    _ => true,
  }
}

/// Body of the child process (`C17_PROBE=<via>:<did>`): prints "started", converts, prints "done:<string>".
fn probe_child_main(arg: &str) {
  use std::io::Write;
  let (via, s) = arg.split_once(':').expect("probe argument");
  let did = IotaDID::parse(s).expect("probe input parses");
  println!("started");
  std::io::stdout().flush().ok();
  let out: String = match via {
    "0" => String::from(did),
    "1" => did.into_string(),
    _ => Into::<String>::into(did),
  };
  println!("done:{out}");
  std::io::stdout().flush().ok();
}

/// Ok(string) if the conversion returned; Err(how it failed to). `None` = the probe itself could not run.
fn probe_into_string(s: &str, via: u8) -> Option<Result<String, String>> {
  use std::io::BufRead;
  use std::process::{Command, Stdio};
  use std::time::Duration;
  let exe = std::env::current_exe().ok()?;
  let mut child = Command::new(exe).env("C17_PROBE", format!("{via}:{s}")).stdin(Stdio::null()).stdout(Stdio::piped()).stderr(Stdio::null()).spawn().ok()?;
  let out = child.stdout.take()?;
  let (tx, rx) = std::sync::mpsc::channel::<String>();
  std::thread::spawn(move || {
    for line in std::io::BufReader::new(out).lines().map_while(Result::ok) {
      if tx.send(line).is_err() {
        break;
      }
    }
  });
  // process start-up may be slow on a loaded machine: generous; the conversion itself is microseconds of work
  let started = matches!(rx.recv_timeout(Duration::from_secs(120)).as_deref(), Ok("started"));
  if !started {
    let _ = child.kill();
    let _ = child.wait();
    return None;
  }
  let res = match rx.recv_timeout(Duration::from_secs(30)) {
    Ok(line) => match line.strip_prefix("done:") {
      Some(v) => Ok(v.to_owned()),
      None => Err(format!("unexpected output {line:?}")),
    },
    Err(std::sync::mpsc::RecvTimeoutError::Timeout) => Err("still running 30 s after it started (non-terminating)".to_owned()),
    Err(std::sync::mpsc::RecvTimeoutError::Disconnected) => {
      let st = child.wait().ok();
      Err(format!("the process died without returning ({st:?})"))
    }
  };
  let _ = child.kill();
  let _ = child.wait();
  Some(res)
}

fn eval_into_string(ctx: &Ctx, s: &str, via: u8, l: &mut Local) {
  l.evals += 1;
  let case = Case::IntoString { s: s.to_owned(), via };
  let name = ["String::from(IotaDID)", "DID::into_string(IotaDID)", "Into::<String>::into(IotaDID)"][via.min(2) as usize];
  if !matches!(guard(|| IotaDID::parse(s)), Ok(Ok(_))) {
    l.outcome("into_string: input rejected by parse (not judged)");
    return;
  }
  match probe_into_string(s, via) {
    None => {
      ctx.require(false, "into_string probe: the child process could not be started");
      l.outcome("into_string: probe could not run");
    }
    Some(Ok(out)) => {
      let want = guard(|| IotaDID::parse(s).map(|d| d.as_str().to_owned()).ok()).ok().flatten();
      if Some(&out) != want.as_ref() {
        ctx.violation("IotaDID::into_string|differs-from-as_str", &format!("{name} of {s:?} = {out:?}, as_str {want:?}"), &case);
      }
      l.outcome("into_string: returned the string form");
    }
    Some(Err(how)) => {
      ctx.violation("IotaDID::into_string|never-returns", &format!("{name} of the value parsed from {s:?}: {how}"), &case);
      l.outcome("into_string: NEVER RETURNED");
    }
  }
  l.distinct(&(6u8, s, via));
}

fn eval_local(ctx: &Ctx, case: &Case, l: &mut Local) {
  match case {
    Case::IntoString { s, via } => eval_into_string(ctx, s, *via, l),
    Case::Str { s } => eval_str(ctx, s, l),
    Case::Net { name } => eval_net(ctx, name, l),
    Case::New { tag, network } => eval_new(ctx, tag, network, l),
    Case::Alias { alias, network } => eval_alias(ctx, alias, network, l),
    Case::Eq { a, b } => match (build(a), build(b)) {
      (Some(x), Some(y)) => {
        eval_eq(ctx, a, b, &x, &y, l);
      }
      _ => l.outcome("eq: a member is not constructible/clean on this tree (not judged)"),
    },
    Case::Trans { a, b, c } => match (build(a), build(b), build(c)) {
      (Some(x), Some(y), Some(z)) => {
        l.evals += 1;
        if !transitive(x.cmp(&y), y.cmp(&z), x.cmp(&z)) {
          ctx.violation("IotaDID::cmp|not-transitive", &format!("{:?} {:?} {:?}", x.as_str(), y.as_str(), z.as_str()), case);
        }
        l.outcome("trans");
      }
      _ => l.outcome("trans: a member is not constructible/clean on this tree (not judged)"),
    },
  }
}
fn eval(ctx: &Ctx, case: &Case) {
  let mut l = Local::default();
  eval_local(ctx, case, &mut l);
  l.merge(ctx);
}

// ------------------------------------------------------------------------------------------------ enumeration

fn run_list(ctx: &Ctx, part: &str, cases: &[Case]) {
  cases
    .par_iter()
    .fold(Local::default, |mut l, c| {
      eval_local(ctx, c, &mut l);
      l
    })
    .for_each(|l| l.merge(ctx));
  for i in [0, cases.len() / 3, cases.len() / 2, cases.len() - 1] {
    ctx.sample(part, &cases[i]);
  }
  ctx.add_states(cases.len() as u64);
  ctx.add_transitions(cases.len() as u64);
  ctx.add_traces(cases.len() as u64);
  ctx.part(part, json!({"engine": "E1 full product", "cases": cases.len()}));
}

/// all strings over `sigma` of length ≤ n
fn strings(sigma: &[&str], n: u32) -> Vec<String> {
  let mut out = vec![String::new()];
  let mut layer = vec![String::new()];
  for _ in 0..n {
    let mut next = Vec::with_capacity(layer.len() * sigma.len());
    for s in &layer {
      for c in sigma {
        next.push(format!("{s}{c}"));
      }
    }
    out.extend(next.iter().cloned());
    layer = next;
  }
  out
}

const TAG_A: &str = "f29dd16310c2100fd1bf568b345fb1cc14d71caa3bd9b5ad735d2bd6d455ca3b";
const TAG_B: &str = "0123456789abcdef0123456789abcdef0123456789abcdef0123456789abcdef";
const TAG_0: &str = "0000000000000000000000000000000000000000000000000000000000000000";

fn structured_tags(n: usize) -> Vec<String> {
  let mut t: Vec<[u8; 32]> = Vec::new();
  t.push([0; 32]);
  t.push([0xff; 32]);
  t.push([0xab; 32]);
  t.push([0x0a; 32]);
  t.push([0xa0; 32]);
  let mut asc = [0u8; 32];
  for (i, b) in asc.iter_mut().enumerate() {
    *b = i as u8;
  }
  t.push(asc);
  let mut desc = [0u8; 32];
  for (i, b) in desc.iter_mut().enumerate() {
    *b = 255 - i as u8;
  }
  t.push(desc);
  for i in 0..32 {
    let mut one = [0u8; 32];
    one[i] = 0x01;
    t.push(one);
    let mut hi = [0u8; 32];
    hi[i] = 0xf0;
    t.push(hi);
    let mut inv = [0xffu8; 32];
    inv[i] = 0x00;
    t.push(inv);
  }
  t.truncate(n);
  t.iter().map(|b| hex_lower(b)).collect()
}

fn generate(ctx: &Ctx) {
  ctx.rule("full products of the stated grids, every case on all entry points; distinct_nontrivial = distinct inputs that denote an IOTA DID (read case-insensitively), are non-ASCII, or are accepted/panic on at least one entry point; distinct valid or serde-accepted network names; distinct constructor arguments; distinct pool pairs");
  ctx.assume("the reference model (normal form, case-insensitive denotation) is written from the property statement and the IOTA DID method specification; std ASCII case mapping and serde_json are trusted");
  ctx.assume("CoreDID-level defects (property C10) surface here only through the IOTA entry points; a panic raised inside CoreDID::parse is keyed as CoreDID::parse");
  // owning conversions to String, probed in child processes while the rest runs
  let probe_inputs: Vec<(String, u8)> = [format!("did:iota:0x{TAG_A}"), format!("did:iota:smr:0x{TAG_0}")].into_iter().flat_map(|s| (0..3u8).map(move |v| (s.clone(), v))).collect();
  let probes: Vec<std::thread::JoinHandle<(String, u8, Option<Result<String, String>>)>> =
    probe_inputs.iter().cloned().map(|(s, v)| std::thread::spawn(move || {
      let r = probe_into_string(&s, v);
      (s, v, r)
    })).collect();
  // (a) grid
  let schemes = ["did", "DID", "dod"];
  let methods = ["iota", "IOTA", "Iota", "iot", "iotaa", "key"];
  let nets: [Option<&str>; 17] = [
    None, Some("iota"), Some("IOTA"), Some("Iota"), Some("main"), Some("smr"), Some("SMR"), Some("a"), Some("123456"), Some("1234567"), Some("Ma-in"), Some(""), Some("féta"), Some("\u{212A}ek"), Some("rms:x"),
    Some(" smr"), Some("sm r"),
  ];
  let up = |s: &str| s.to_ascii_uppercase();
  let mixed: String = TAG_A.chars().enumerate().map(|(i, c)| if i % 2 == 0 { c.to_ascii_uppercase() } else { c }).collect();
  let mut tags: Vec<String> = vec![
    format!("0x{TAG_A}"),
    format!("0x{TAG_B}"),
    format!("0x{TAG_0}"),
    format!("0x{}", up(TAG_A)),
    format!("0x{mixed}"),
    format!("0X{TAG_A}"),
    format!("0X{}", up(TAG_A)),
    TAG_A.to_string(),
    format!("0x{}", &TAG_A[..63]),
    format!("0x{TAG_A}a"),
    format!("0x{TAG_A}ab"),
    format!("0x{}", &TAG_A[..62]),
    String::new(),
    "0x".to_string(),
    format!("0x{}%41", &TAG_A[..61]),
    format!("0x{}é", &TAG_A[..62]),
  ];
  for pos in [2usize, 33, 65] {
    let mut t: Vec<char> = format!("0x{TAG_A}").chars().collect();
    t[pos] = 'g';
    tags.push(t.iter().collect());
  }
  let suffixes = ["", "/p", "?q", "#f", "/p?q#f", " ", "\n", "#", "?", ":", "%41", "/"];
  let prefixes = ["", " ", "\n"];
  let mut cases: Vec<Case> = Vec::new();
  for sc in schemes {
    for m in methods {
      for n in nets {
        for t in &tags {
          for sfx in suffixes {
            for pre in prefixes {
              let s = match n {
                None => format!("{pre}{sc}:{m}:{t}{sfx}"),
                Some(n) => format!("{pre}{sc}:{m}:{n}:{t}{sfx}"),
              };
              cases.push(Case::Str { s });
            }
          }
        }
      }
    }
  }
  run_list(ctx, "string grid scheme x method x network x tag x suffix x prefix", &cases);
  // (b) every single-character substitution of the tag, every short network name inside a DID
  let subs = ["g", "G", "A", "F", ":", "%", "/", "#", "?", "é", " ", "x", ""];
  let mut cases: Vec<Case> = Vec::new();
  let full = format!("0x{TAG_A}");
  for net in ["", "smr:", "iota:"] {
    for pos in 0..full.len() {
      for r in subs {
        cases.push(Case::Str { s: format!("did:iota:{net}{}{r}{}", &full[..pos], &full[pos + 1..]) });
      }
    }
    for len in 0..=full.len() {
      cases.push(Case::Str { s: format!("did:iota:{net}{}", &full[..len]) });
    }
  }
  let net_sigma = ["a", "Z", "0", "-", "é"];
  for n in strings(&net_sigma, ctx.by_tier(5, 7)) {
    cases.push(Case::Str { s: format!("did:iota:{n}:0x{TAG_A}") });
  }
  run_list(ctx, "tag substitutions/truncations and embedded network names", &cases);
  // (c) network names
  let mut cases: Vec<Case> = strings(&net_sigma, 7).into_iter().map(|name| Case::Net { name }).collect();
  let wide = ["a", "z", "Z", "0", "9", "-", "é", " ", ":", "_"];
  cases.extend(strings(&wide, ctx.by_tier(4, 6)).into_iter().map(|name| Case::Net { name }));
  for name in ["iota", "main", "dev", "smr", "rms", "test", "foo", "foobar", "123456", "0", "foo42", "bar123", "42foo", "Main", "fOo", "deV", "féta", "  ", "foo ", " foo", "1234567", "foobar0", "NOT VALID!!", "\u{212A}ek", "ſ", "iota:x", "a/b", "a#b"] {
    cases.push(Case::Net { name: name.into() });
  }
  run_list(ctx, "network names", &cases);
  // (d) constructors
  let alnum: Vec<&str> = "abcdefghijklmnopqrstuvwxyz0123456789".split("").filter(|s| !s.is_empty()).collect();
  let mut names: Vec<String> = strings(&alnum, ctx.by_tier(2, 3)).into_iter().filter(|s| !s.is_empty()).collect();
  names.extend(["iota", "main", "dev", "smr", "rms", "test", "foo", "foobar", "123456", "foo42", "bar123", "42foo", "zzzzzz"].map(String::from));
  let tags_c = structured_tags(ctx.by_tier(100, 24));
  let mut cases: Vec<Case> = Vec::new();
  for t in &tags_c {
    for n in &names {
      cases.push(Case::New { tag: t.clone(), network: n.clone() });
    }
  }
  run_list(ctx, "new/placeholder: structured tags x valid network names", &cases);
  let mut cases: Vec<Case> = Vec::new();
  for t in &tags {
    for sfx in suffixes {
      for n in ["iota", "smr", "a", "123456"] {
        cases.push(Case::Alias { alias: format!("{t}{sfx}"), network: n.into() });
      }
    }
  }
  for t in tags_c.iter().take(24) {
    for n in ["iota", "smr"] {
      cases.push(Case::Alias { alias: format!("0x{t}"), network: n.into() });
      cases.push(Case::Alias { alias: format!("0x{}", t.to_ascii_uppercase()), network: n.into() });
    }
  }
  run_list(ctx, "from_alias_id: tag grid x suffixes x network names", &cases);
  // (e) comparison pool: every construction path × (network, tag)
  let mut builds: Vec<Build> = Vec::new();
  for network in ["iota", "smr", "a", "123456", "iot", "iotaa"] {
    for tag in [TAG_A, TAG_B, TAG_0, &hex_lower(&[0xab; 32]), &hex_lower(&[0xff; 32])] {
      for path in 0..10u8 {
        builds.push(Build { path, network: network.into(), tag: tag.to_string() });
      }
    }
  }
  let pool: Vec<(Build, IotaDID)> = builds.iter().filter_map(|b| build(b).map(|v| (b.clone(), v))).collect();
  ctx.require(pool.len() >= 100, &format!("comparison pool too small: {} of {}", pool.len(), builds.len()));
  let paths_present: std::collections::BTreeSet<u8> = pool.iter().map(|(b, _)| b.path).collect();
  ctx.require(paths_present.len() >= 8, &format!("construction paths in the pool: {paths_present:?}"));
  let np = pool.len();
  let cmp: Vec<Vec<Ordering>> = (0..np)
    .into_par_iter()
    .map(|i| {
      let mut l = Local::default();
      let row = (0..np)
        .map(|j| {
          l.distinct(&(5u8, i, j));
          eval_eq(ctx, &pool[i].0, &pool[j].0, &pool[i].1, &pool[j].1, &mut l)
        })
        .collect();
      l.merge(ctx);
      row
    })
    .collect();
  let mut intransitive = 0u64;
  for i in 0..np {
    for j in 0..np {
      for k in 0..np {
        if !transitive(cmp[i][j], cmp[j][k], cmp[i][k]) {
          intransitive += 1;
          if intransitive <= 8 {
            eval(ctx, &Case::Trans { a: pool[i].0.clone(), b: pool[j].0.clone(), c: pool[k].0.clone() });
          }
        }
      }
    }
  }
  eval(ctx, &Case::Trans { a: pool[0].0.clone(), b: pool[1].0.clone(), c: pool[np - 1].0.clone() });
  ctx.sample("pool pairs", &Case::Eq { a: pool[0].0.clone(), b: pool[np - 1].0.clone() });
  ctx.sample("pool triples", &Case::Trans { a: pool[0].0.clone(), b: pool[1].0.clone(), c: pool[np - 1].0.clone() });
  ctx.add_states(np as u64);
  ctx.add_transitions((np * np) as u64);
  ctx.add_traces((np * np) as u64);
  ctx.add_evals((np * np * np) as u64);
  ctx.outcome_n("trans", (np * np * np) as u64 - intransitive);
  ctx.part(
    "Eq/Ord/Hash over the pool of clean values from all construction paths",
    json!({"builds_attempted": builds.len(), "pool": np, "paths_present": paths_present, "pairs": np * np, "triples_over_cmp_matrix": np * np * np, "intransitive": intransitive}),
  );
  // collect the conversion probes
  let mut never = 0;
  for h in probes {
    let (s, via, r) = h.join().expect("probe thread");
    let case = Case::IntoString { s: s.clone(), via };
    ctx.eval1();
    ctx.add_states(1);
    ctx.add_transitions(1);
    ctx.add_traces(1);
    ctx.distinct(&(6u8, &s, via));
    match r {
      None => ctx.require(false, "into_string probe: the child process could not be started"),
      Some(Ok(out)) => {
        if IotaDID::parse(&s).map(|d| d.as_str() != out).unwrap_or(true) {
          ctx.violation("IotaDID::into_string|differs-from-as_str", &format!("{s:?} -> {out:?}"), &case);
        }
        ctx.outcome("into_string: returned the string form");
      }
      Some(Err(how)) => {
        never += 1;
        ctx.violation("IotaDID::into_string|never-returns", &format!("owning conversion (via {via}: 0 String::from, 1 DID::into_string, 2 Into::into) of the value parsed from {s:?}: {how}"), &case);
        ctx.outcome("into_string: NEVER RETURNED");
      }
    }
    ctx.sample("into_string probes", &case);
  }
  ctx.part("owning String conversions (child-process probes)", json!({"probes": probe_inputs.len(), "never_returned": never}));
  ctx.bound("grid", json!({"schemes": schemes.len(), "methods": methods.len(), "networks": nets.len(), "tags": tags.len(), "suffixes": suffixes.len(), "prefixes": prefixes.len()}));
  ctx.bound("network_name_alphabets", json!({"narrow": net_sigma, "narrow_max_len": 7, "wide": wide, "wide_max_len": ctx.by_tier(4, 6)}));
  ctx.bound("constructor_network_names", names.len());
  ctx.bound("constructor_tags", tags_c.len());
}

fn main() {
  if let Ok(arg) = std::env::var("C17_PROBE") {
    return probe_child_main(&arg);
  }
  vx::run_main::<Case, _, _>("C17", Level::ModelChecking, generate, eval)
}
