//! C17 — IOTA DIDs are normalised, decomposable, equal iff network and tag agree.
//!
//! (a) E1 full product: scheme × method × network segment × tag × suffix × prefix strings through
//!     `IotaDID::{parse, from_str, try_from(&str|String)}` (family "IotaDID::parse") and, via a `CoreDID` /
//!     `BaseDIDUrl` / JSON string, through `IotaDID::{try_from_core, try_from(CoreDID), try_from(BaseDIDUrl),
//!     deserialize}` (family "IotaDID::try_from_core"); (a2) every sequence of ≤ 3 (thorough 5) leading segments
//!     over a small segment alphabet in front of a tag.
//! (b) every ASCII character (and a few non-ASCII ones) substituted at every tag position, every pair of positions
//!     with a small substitution alphabet, every truncation / extension; every network name over a small alphabet and every
//!     ASCII character at every position of a network name, embedded in a DID.
//! (c) `NetworkName::{try_from, validate_network_name, deserialize}` on all strings ≤ n over small alphabets and
//!     on the complete character table at every position of names of length 1..=7.
//! (d) constructors `new`, `placeholder`, `from_alias_id` on structured tags (every byte value occurs) × all
//!     short valid network names, the name obtained through every one of its constructors.
//! (e) pairwise equality / Ord / Hash over a pool of clean values reached through every construction path.
//! (f) owning `String` conversions, probed in child processes under a CPU-time budget.
//!
//! Judged (statement / documented API): accepted ⇒ the input is an IOTA DID (read ASCII-case-insensitively) and the
//! value is its normal form, decomposes, re-parses, converts to `CoreDID` / JSON / `DIDUrl` and back unchanged;
//! an input that already is in normal form is accepted by every entry point; constructors expose what they were
//! given; `==` ⇔ same (network, tag bytes), `Ord`/`Hash` consistent with it.
//! Executed and recorded only: acceptance of upper-case spellings, which error is returned, `Display`/`Debug` of
//! `NetworkName`, `is_valid` vs `try_from_core` on inputs that are not in normal form, `from_alias_id` on
//! anything that is not `0x` + 64 hex digits.

use identity_core::common::KeyComparable;
use identity_did::{BaseDIDUrl, CoreDID, DIDUrl, DID};
use identity_iota_core::{IotaDID, NetworkName};
use serde::{Deserialize, Serialize};
use std::cmp::Ordering;
use std::collections::hash_map::DefaultHasher;
use std::collections::BTreeMap;
use std::hash::{Hash, Hasher};
use std::str::FromStr;
use vx::rayon::prelude::*;
use vx::{guard, json, Ctx, Level, Panicked};

// ------------------------------------------------------------------------------------------------ cases

/// How a value of the comparison pool is built.
#[derive(Serialize, Deserialize, Debug, Clone, PartialEq)]
struct Build {
  /// 0 parse(lower) 1 parse(UPPER) 2 parse with the network written explicitly 3 from_str 4 try_from_core
  /// 5 try_from(BaseDIDUrl) 6 deserialize 7 new(bytes, name) 8 from_alias_id 9 placeholder (tag must be zero)
  path: u8,
  network: String,
  /// 64 lowercase hex digits
  tag: String,
}

#[derive(Serialize, Deserialize, Debug, Clone, PartialEq)]
enum Case {
  /// one string through every string / CoreDID / serde entry point
  Str { s: String },
  /// one candidate network name through NetworkName::{try_from, validate_network_name, deserialize}
  Net { name: String },
  /// `IotaDID::new(tag, NetworkName::try_from(network))`, `placeholder`
  New { tag: String, network: String },
  /// `IotaDID::from_alias_id(alias, NetworkName::try_from(network))`
  Alias { alias: String, network: String },
  Eq { a: Build, b: Build },
  Trans { a: Build, b: Build, c: Build },
  /// `IotaDID::parse(s)` then the owning conversion to `String` (via 0 `String::from`, 1 `DID::into_string`,
  /// 2 `Into::<String>::into`), executed in a child process because a non-returning call cannot be guarded
  IntoString { s: String, via: u8 },
}

#[derive(Default)]
struct Local {
  outcomes: BTreeMap<String, u64>,
  distinct: Vec<u64>,
  evals: u64,
}
impl Local {
  fn outcome(&mut self, l: impl Into<String>) {
    *self.outcomes.entry(l.into()).or_insert(0) += 1;
  }
  fn distinct<K: Hash>(&mut self, k: &K) {
    self.distinct.push(Ctx::hash_of(k));
  }
  fn merge(self, ctx: &Ctx) {
    ctx.outcomes_merge(&self.outcomes);
    ctx.distinct_many(self.distinct);
    ctx.add_evals(self.evals);
  }
}

fn pkey(p: &Panicked) -> String {
  let file = p.loc.rsplit_once(':').map(|(f, _)| f).unwrap_or(&p.loc);
  let head = p.msg.split(['`', '"', '\'']).next().unwrap_or("");
  let mut m: String = head.chars().map(|c| if c.is_ascii_digit() { '#' } else { c }).collect();
  while m.contains("##") {
    m = m.replace("##", "#");
  }
  let m: String = m.trim().trim_end_matches(':').chars().take(48).collect();
  format!("panic@{file}:{m}")
}
fn hash_of<T: Hash>(t: &T) -> u64 {
  let mut h = DefaultHasher::new();
  t.hash(&mut h);
  h.finish()
}

// ------------------------------------------------------------------------------------------------ reference model
// From the property statement and the IOTA DID method specification:
//   iota-did = "did:iota:" [ network ":" ] tag      network = 1*6( %x61-7A / DIGIT )   tag = "0x" 64 lower HEXDIG
//   normal form: lowercase, the default network "iota" is not written.

fn valid_network(n: &str) -> bool {
  (1..=6).contains(&n.len()) && n.bytes().all(|c| c.is_ascii_lowercase() || c.is_ascii_digit())
}
fn ws_or_ctl(c: char) -> bool {
  c.is_whitespace() || c.is_control()
}
fn hex_val(c: u8) -> Option<u8> {
  match c {
    b'0'..=b'9' => Some(c - b'0'),
    b'a'..=b'f' => Some(c - b'a' + 10),
    b'A'..=b'F' => Some(c - b'A' + 10),
    _ => None,
  }
}
/// "0x" + 64 hex digits, any case of the digits and of the "x"  →  bytes
fn tag_bytes_any_case(tag: &str) -> Option<[u8; 32]> {
  let b = tag.as_bytes();
  if b.len() != 66 || b[0] != b'0' || (b[1] != b'x' && b[1] != b'X') {
    return None;
  }
  let mut out = [0u8; 32];
  for i in 0..32 {
    out[i] = hex_val(b[2 + 2 * i])? << 4 | hex_val(b[3 + 2 * i])?;
  }
  Some(out)
}
fn hex_lower(bytes: &[u8]) -> String {
  bytes.iter().map(|b| format!("{b:02x}")).collect()
}

/// Is `v` an IOTA DID in normal form?  Ok((network, tag bytes)) or the first failing clause.
fn normal_form(v: &str) -> Result<(&str, [u8; 32]), &'static str> {
  if v.chars().next().map(ws_or_ctl).unwrap_or(false) {
    return Err("leading-whitespace");
  }
  if v.chars().last().map(ws_or_ctl).unwrap_or(false) {
    return Err("trailing-whitespace");
  }
  let rest = v.strip_prefix("did:").ok_or("bad-scheme")?;
  let rest = rest.strip_prefix("iota:").ok_or("method-not-iota")?;
  if rest.contains(['/', '?', '#']) {
    return Err("has-path-query-or-fragment");
  }
  let segs: Vec<&str> = rest.split(':').collect();
  let (net, explicit, tag) = match segs.as_slice() {
    [tag] => ("iota", false, *tag),
    [net, tag] => (*net, true, *tag),
    _ => return Err("too-many-segments"),
  };
  if !valid_network(net) {
    return Err(if valid_network(&net.to_ascii_lowercase()) { "network-not-lowercase" } else { "invalid-network-name" });
  }
  if explicit && net == "iota" {
    return Err("default-network-not-omitted");
  }
  let bytes = tag_bytes_any_case(tag).ok_or("invalid-tag")?;
  if tag.bytes().any(|c| c.is_ascii_uppercase()) {
    return Err("tag-not-lowercase");
  }
  Ok((net, bytes))
}

/// What an ASCII input denotes when read case-insensitively: (network, tag bytes); None if it is not an IOTA DID.
fn denotes(s: &str) -> Option<(String, [u8; 32])> {
  let l = s.to_ascii_lowercase();
  let rest = l.strip_prefix("did:iota:")?;
  let segs: Vec<&str> = rest.split(':').collect();
  let (net, tag) = match segs.as_slice() {
    [tag] => ("iota", *tag),
    [net, tag] => (*net, *tag),
    _ => return None,
  };
  if !valid_network(net) {
    return None;
  }
  Some((net.to_owned(), tag_bytes_any_case(tag)?))
}

// ------------------------------------------------------------------------------------------------ judge

/// Judge an accepted value. `family` is the key prefix (code site), `via` the concrete entry point, `input`
/// what it was given. Returns true iff the value is clean.
fn judge(ctx: &Ctx, family: &str, via: &str, input: &str, v: &IotaDID, case: &Case) -> bool {
  // the "denotes what was given" clause belongs to the constructor when one was used
  let site = if via == "IotaDID::new" || via == "IotaDID::from_alias_id" { via } else { family };
  let vs = match guard(|| v.as_str().to_owned()) {
    Ok(s) => s,
    Err(p) => {
      ctx.violation(&format!("{family}|string-form|{}", pkey(&p)), &format!("{via}({input:?}): {}", p.msg), case);
      return false;
    }
  };
  let (net, tag) = match normal_form(&vs) {
    Ok(x) => x,
    Err(class) => {
      let acc = guard(|| (v.method().to_owned(), v.network_str().to_owned(), v.tag_str().to_owned()));
      ctx.violation(
        &format!("{family}|accepted|{class}"),
        &format!("{via}({input:?}) accepted; the value {vs:?} is not an IOTA DID in normal form ({class}); (method, network_str, tag_str) = {:?}", acc.ok()),
        case,
      );
      return false;
    }
  };
  // string forms
  // (`String::from(IotaDID)` / `into_string` are probed in a child process: see `probe_into_string`)
  let forms = guard(|| (v.to_string(), format!("{v}"), <IotaDID as AsRef<CoreDID>>::as_ref(v).as_str().to_owned(), serde_json::to_value(v).ok(), CoreDID::from(v.clone()).as_str().to_owned()));
  match forms {
    Err(p) => {
      ctx.violation(&format!("{family}|string-form|{}", pkey(&p)), &format!("{via}({input:?}): {}", p.msg), case);
      return false;
    }
    Ok(f) => {
      if f.0 != vs || f.1 != vs || f.2 != vs || f.3 != Some(json!(vs)) || f.4 != vs {
        ctx.violation(&format!("{family}|string-forms-disagree"), &format!("{via}({input:?}): as_str {vs:?}, others {f:?}"), case);
        return false;
      }
    }
  }
  // accessors recompose
  let acc = guard(|| (v.scheme().to_owned(), v.method().to_owned(), v.method_id().to_owned(), v.network_str().to_owned(), v.tag_str().to_owned(), v.is_placeholder(), v.authority().to_owned()));
  match acc {
    Err(p) => {
      ctx.violation(&format!("{family}|accessor|{}", pkey(&p)), &format!("{via}({input:?}) = {vs:?}: {}", p.msg), case);
      return false;
    }
    Ok((scheme, method, method_id, network_str, tag_str, placeholder, authority)) => {
      let want_tag = format!("0x{}", hex_lower(&tag));
      let recomposed = if network_str == "iota" { format!("did:{method}:{tag_str}") } else { format!("did:{method}:{network_str}:{tag_str}") };
      // (`authority` is documented as "the method name and method-id")
      if scheme != "did" || method != "iota" || network_str != net || tag_str != want_tag || recomposed != vs || format!("did:{method}:{method_id}") != vs || format!("did:{authority}") != vs {
        ctx.violation(
          &format!("{family}|accessors-do-not-recompose"),
          &format!("{via}({input:?}) = {vs:?}: method {method:?} method_id {method_id:?} authority {authority:?} network_str {network_str:?} tag_str {tag_str:?}"),
          case,
        );
        return false;
      }
      if placeholder != (tag == [0u8; 32]) {
        ctx.violation(&format!("{family}|is_placeholder-wrong"), &format!("{vs:?}: {placeholder}"), case);
        return false;
      }
    }
  }
  // re-parses from its string form to an equal value
  match guard(|| IotaDID::parse(&vs)) {
    Ok(Ok(back)) => {
      if back != *v || back.as_str() != vs || hash_of(&back) != hash_of(v) || back.cmp(v) != Ordering::Equal {
        ctx.violation(&format!("{family}|reparse-differs"), &format!("{via}({input:?}) = {vs:?}, re-parsed {:?}", back.as_str()), case);
        return false;
      }
    }
    Ok(Err(e)) => {
      ctx.violation(&format!("{family}|reparse-rejected"), &format!("{via}({input:?}) = {vs:?} does not re-parse: {e}"), case);
      return false;
    }
    Err(p) => {
      ctx.violation(&format!("IotaDID::parse|{}", pkey(&p)), &format!("re-parsing {vs:?}: {}", p.msg), case);
      return false;
    }
  }
  // the value denotes what the input denotes
  if input.is_ascii() {
    match denotes(input) {
      Some((n, t)) => {
        if n != net || t != tag {
          ctx.violation(&format!("{site}|value-denotes-other-network-or-tag"), &format!("{via}({input:?}) = {vs:?}"), case);
          return false;
        }
      }
      None => {
        ctx.violation(&format!("{family}|accepted|input-not-an-iota-did"), &format!("{via}({input:?}) = {vs:?}: the input is not an IOTA DID even when read case-insensitively"), case);
        return false;
      }
    }
  } else {
    // DID syntax is ASCII: a string with any other character is not a DID, whatever a Unicode case mapping makes of it
    ctx.violation(
      &format!("{family}|accepted|non-ascii-input"),
      &format!("{via}({input:?}) = {vs:?}: the input contains non-ASCII characters, it is not a DID (and not an IOTA DID in any spelling)"),
      case,
    );
    return false;
  }
  // ---- the value is clean from here on: what follows is about the conversions of a good value
  let mut ok = true;
  // CoreDID and back, serde and back, the validity predicates on the value itself
  let conv = guard(|| {
    let core: CoreDID = CoreDID::from(v.clone());
    let core2: CoreDID = Into::<CoreDID>::into(v.clone());
    let back = IotaDID::try_from(core.clone()).ok();
    let back2 = IotaDID::try_from_core(core2).ok();
    let serde_back = serde_json::to_value(v).ok().and_then(|j| serde_json::from_value::<IotaDID>(j).ok());
    let valid = IotaDID::check_validity(v).is_ok() && IotaDID::is_valid(v.as_ref()) && IotaDID::check_validity(&core).is_ok();
    let key_ok = KeyComparable::key(v).as_str() == vs;
    (back, back2, serde_back, valid, key_ok)
  });
  match conv {
    Err(p) => {
      ctx.violation(&format!("IotaDID<->CoreDID|{}", pkey(&p)), &format!("conversions of {vs:?}: {}", p.msg), case);
      ok = false;
    }
    Ok((back, back2, serde_back, valid, key_ok)) => {
      if !key_ok {
        ctx.violation("IotaDID::key|not-the-did", &format!("{vs:?}: KeyComparable::key is another DID"), case);
        ok = false;
      }
      if back.as_ref() != Some(v) || back2.as_ref() != Some(v) {
        ctx.violation("IotaDID<->CoreDID|round-trip-differs", &format!("{vs:?}: CoreDID::from then IotaDID::try_from gives {:?} / {:?}", back.as_ref().map(|d| d.as_str().to_owned()), back2.as_ref().map(|d| d.as_str().to_owned())), case);
        ok = false;
      }
      if serde_back.as_ref() != Some(v) {
        ctx.violation("IotaDID::deserialize|serde-round-trip-differs", &format!("{vs:?}: serialized and deserialized gives {:?}", serde_back.as_ref().map(|d| d.as_str().to_owned())), case);
        ok = false;
      }
      if !valid {
        ctx.violation("IotaDID::check_validity|rejects-accepted-value", &format!("{vs:?} (from {via}) is not valid according to check_validity / is_valid"), case);
        ok = false;
      }
    }
  }
  // base of a DID URL (DID trait: `to_url` / `into_url` "of the same method", `join` "append[s] a path, query, and/or fragment")
  const RELS: [&str; 4] = ["#k", "/p", "?q=1", "/p?q=1#k"];
  let urls = guard(|| {
    let u: DIDUrl = v.to_url();
    let iu: DIDUrl = v.clone().into_url();
    let plain = u.did().as_str() == vs && u.to_string() == vs && u.url().is_empty() && iu == u && iu.to_string() == vs;
    let joined: Vec<Option<(String, String, bool)>> = RELS
      .iter()
      .map(|rel| v.clone().join(rel).ok().map(|j| (j.to_string(), j.did().as_str().to_owned(), IotaDID::try_from(j.did().clone()).ok().as_ref() == Some(v))))
      .collect();
    (plain, joined)
  });
  match urls {
    Err(p) => {
      ctx.violation(&format!("DID::to_url(IotaDID)|{}", pkey(&p)), &format!("to_url / into_url / join on {vs:?}: {}", p.msg), case);
      ok = false;
    }
    Ok((plain, joined)) => {
      if !plain {
        ctx.violation("DID::to_url(IotaDID)|not-the-did", &format!("{vs:?}: to_url / into_url do not give the DID URL that consists of this DID"), case);
        ok = false;
      }
      for (rel, j) in RELS.iter().zip(joined) {
        match j {
          None => {
            ctx.violation("DID::join(IotaDID)|valid-segment-rejected", &format!("{vs:?}.join({rel:?})"), case);
            ok = false;
          }
          Some((string, did, same)) => {
            if string != format!("{vs}{rel}") || did != vs || !same {
              ctx.violation("DID::join(IotaDID)|not-did-plus-segment", &format!("{vs:?}.join({rel:?}) = {string:?} with did {did:?}"), case);
              ok = false;
            }
          }
        }
      }
    }
  }
  ok
}

#[derive(Debug, Clone, PartialEq)]
enum Sig {
  Ok(String),
  Err,
  Panic(String),
}
fn sig<E>(r: &Result<Result<IotaDID, E>, Panicked>) -> Sig {
  match r {
    Ok(Ok(v)) => guard(|| v.as_str().to_owned()).map(Sig::Ok).unwrap_or_else(|p| Sig::Panic(pkey(&p))),
    Ok(Err(_)) => Sig::Err,
    Err(p) => Sig::Panic(pkey(p)),
  }
}
fn sig_label(s: &Sig) -> &'static str {
  match s {
    Sig::Ok(_) => "Ok",
    Sig::Err => "Err",
    Sig::Panic(_) => "PANIC",
  }
}

fn eval_str(ctx: &Ctx, s: &str, l: &mut Local) {
  l.evals += 1;
  let case = Case::Str { s: s.to_owned() };
  // baseline family: the input already is an IOTA DID in normal form — every entry point must take it
  let baseline = normal_form(s).is_ok();
  let must_accept = |entry: &str, got: &Sig| {
    if baseline && *got == Sig::Err {
      ctx.violation(&format!("{entry}|rejected|normal-form-input"), &format!("{s:?} is an IOTA DID in normal form"), &case);
    }
  };
  // ---- family parse
  let r = guard(|| IotaDID::parse(s));
  let sp = sig(&r);
  match &r {
    Err(p) => {
      // a panic that already happens in CoreDID::parse of the lower-cased input is CoreDID's (property C10)
      let inner = guard(|| CoreDID::parse(s.to_lowercase()).is_ok());
      let entry = if inner.is_err() { "CoreDID::parse" } else { "IotaDID::parse" };
      ctx.violation(&format!("{entry}|{}", pkey(p)), &format!("IotaDID::parse({s:?}): {}", p.msg), &case);
    }
    Ok(Ok(v)) => {
      judge(ctx, "IotaDID::parse", "IotaDID::parse", s, v, &case);
    }
    Ok(Err(_)) => must_accept("IotaDID::parse", &sp),
  }
  for (name, o) in [
    ("IotaDID::from_str", sig(&guard(|| IotaDID::from_str(s)))),
    ("IotaDID::try_from(&str)", sig(&guard(|| IotaDID::try_from(s)))),
    ("IotaDID::try_from(String)", sig(&guard(|| IotaDID::try_from(s.to_owned())))),
  ] {
    if o != sp {
      ctx.violation(&format!("{name}|differs-from-parse"), &format!("input {s:?}: parse {sp:?}, {name} {o:?}"), &case);
    }
  }
  // ---- family try_from_core (no lower-casing on this path)
  let core = guard(|| CoreDID::parse(s));
  let mut st = Sig::Err;
  let mut core_label = "CoreDID=Err";
  let mut valid_label = "is_valid=n/a";
  match core {
    Err(_) => core_label = "CoreDID=PANIC", // reported by C10
    // (a normal-form IOTA DID is a DID: CoreDID refusing it surfaces here through the IOTA entry point)
    Ok(Err(_)) => must_accept("IotaDID::try_from_core", &Sig::Err),
    Ok(Ok(core)) => {
      core_label = "CoreDID=Ok";
      let r = guard(|| IotaDID::try_from_core(core.clone()));
      st = sig(&r);
      match &r {
        Err(p) => ctx.violation(&format!("IotaDID::try_from_core|{}", pkey(p)), &format!("try_from_core(CoreDID {s:?}): {}", p.msg), &case),
        Ok(Ok(v)) => {
          judge(ctx, "IotaDID::try_from_core", "IotaDID::try_from_core", s, v, &case);
        }
        Ok(Err(_)) => must_accept("IotaDID::try_from_core", &st),
      }
      let o = sig(&guard(|| IotaDID::try_from(core.clone())));
      if o != st {
        ctx.violation("IotaDID::try_from(CoreDID)|differs-from-try_from_core", &format!("input {s:?}: {st:?} vs {o:?}"), &case);
      }
      // the validity predicates: `is_valid` is documented as equivalent to `check_validity(..).is_ok()`; "valid"
      // only for an IOTA DID (any ASCII case), and always for one in normal form. Whether a predicate also says
      // "valid" for the spellings that `try_from_core` normalises (upper-case hex digits, explicit default
      // network) is not fixed by the statement: their agreement with the conversion is recorded, not judged.
      match guard(|| (IotaDID::is_valid(&core), IotaDID::check_validity(&core).is_ok())) {
        Err(p) => ctx.violation(&format!("IotaDID::is_valid|{}", pkey(&p)), &format!("is_valid / check_validity(CoreDID {s:?}): {}", p.msg), &case),
        Ok((a, b)) => {
          if a != b {
            ctx.violation("IotaDID::is_valid|differs-from-check_validity", &format!("input {s:?}: is_valid {a}, check_validity(..).is_ok() {b}"), &case);
          }
          if (a || b) && !(s.is_ascii() && denotes(s).is_some()) {
            ctx.violation("IotaDID::is_valid|accepted|input-not-an-iota-did", &format!("CoreDID {s:?}: is_valid {a}, check_validity(..).is_ok() {b}"), &case);
          }
          if baseline && !(a && b) {
            ctx.violation("IotaDID::is_valid|rejected|normal-form-input", &format!("CoreDID {s:?}: is_valid {a}, check_validity(..).is_ok() {b}"), &case);
          }
          valid_label = match (a, matches!(st, Sig::Ok(_))) {
            (true, true) => "is_valid=true(=conversion)",
            (false, false) => "is_valid=false(=conversion)",
            (true, false) => "is_valid=true(conversion Err)",
            (false, true) => "is_valid=false(conversion Ok)",
          };
        }
      }
    }
  }
  // TryFrom<BaseDIDUrl> and serde reach try_from_core through CoreDID::try_from(BaseDIDUrl)
  // (a panic or error of `BaseDIDUrl::parse` itself, called here by the harness, is not the library's)
  let rb = match guard(|| BaseDIDUrl::parse(s)) {
    Ok(Ok(base)) => guard(|| IotaDID::try_from(base)),
    _ => Ok(Err(identity_did::Error::Other("BaseDIDUrl::parse refused the input"))),
  };
  match &rb {
    Err(p) => ctx.violation(&format!("IotaDID::try_from_core|{}", pkey(p)), &format!("IotaDID::try_from(BaseDIDUrl {s:?}): {}", p.msg), &case),
    Ok(Ok(v)) => {
      judge(ctx, "IotaDID::try_from_core", "IotaDID::try_from(BaseDIDUrl)", s, v, &case);
    }
    Ok(Err(_)) => must_accept("IotaDID::try_from(BaseDIDUrl)", &Sig::Err),
  }
  let rd = guard(|| serde_json::from_value::<IotaDID>(json!(s)));
  match &rd {
    Err(p) => {
      // serde reaches the CoreDID layer first: a panic there is CoreDID's (property C10)
      let inner = guard(|| serde_json::from_value::<CoreDID>(json!(s)).is_ok());
      let entry = if inner.is_err() { "CoreDID::deserialize" } else { "IotaDID::try_from_core" };
      ctx.violation(&format!("{entry}|{}", pkey(p)), &format!("IotaDID deserialized from {s:?}: {}", p.msg), &case);
    }
    Ok(Ok(v)) => {
      judge(ctx, "IotaDID::try_from_core", "IotaDID::deserialize", s, v, &case);
    }
    Ok(Err(_)) => must_accept("IotaDID::deserialize", &Sig::Err),
  }
  let (sb, sd) = (sig(&rb), sig(&rd));
  let den = if s.is_ascii() {
    match (denotes(s), normal_form(s).is_ok()) {
      (_, true) => "normal-form",
      (Some(_), false) => "iota-did-not-normal-form",
      (None, _) => "not-an-iota-did",
    }
  } else {
    "non-ascii"
  };
  l.outcome(format!("str: input={den} parse={} {core_label} try_from_core={} try_from(BaseDIDUrl)={} deserialize={} {valid_label}", sig_label(&sp), sig_label(&st), sig_label(&sb), sig_label(&sd)));
  let trivial = den == "not-an-iota-did" && sp == Sig::Err && st == Sig::Err && sb == Sig::Err && sd == Sig::Err;
  if !trivial {
    l.distinct(&(1u8, s));
  }
}

/// names that are also tried as `&'static str` (the `TryFrom<&'static str>` / `Cow::Borrowed` constructors)
const STATIC_NAMES: [&str; 14] = ["iota", "main", "dev", "smr", "rms", "test", "foo", "foobar", "123456", "0", "foo42", "bar123", "42foo", "zzzzzz"];
const STATIC_INVALID_NAMES: [&str; 18] = ["", "Main", "fOo", "deV", "féta", "  ", "foo ", " foo", "1234567", "foobar0", "NOT VALID!!", "\u{212A}ek", "ſ", "iota:x", "a/b", "a#b", "a-b", "a.b"];

fn eval_net(ctx: &Ctx, name: &str, l: &mut Local) {
  l.evals += 1;
  let case = Case::Net { name: name.to_owned() };
  let want = valid_network(name);
  let mut fmt = "";
  let r = guard(|| NetworkName::try_from(name.to_owned()));
  let r2 = guard(|| <NetworkName as TryFrom<String>>::try_from(name.to_owned()));
  let r3 = guard(|| NetworkName::validate_network_name(name).is_ok());
  match (&r, &r2, &r3) {
    (Ok(a), Ok(b), Ok(c)) => {
      if a.is_ok() != b.is_ok() || a.is_ok() != *c {
        ctx.violation("NetworkName::try_from|entry-points-disagree", &format!("{name:?}: try_from {} TryFrom<String> {} validate {}", a.is_ok(), b.is_ok(), c), &case);
      }
      match a {
        Ok(n) => {
          if !want {
            ctx.violation("NetworkName::try_from|accepted|invalid-network-name", &format!("{name:?}"), &case);
          } else if n.as_ref() != name || b.as_ref().map(|n| n.as_ref() != name).unwrap_or(false) {
            ctx.violation("NetworkName::try_from|name-not-verbatim", &format!("{name:?} -> {:?}", n.as_ref()), &case);
          } else if guard(|| n.to_string() != name || format!("{n:?}") != name).unwrap_or(true) {
            // how a name is displayed / debug-printed is not part of the statement: recorded
            fmt = " display-or-debug=not-the-name";
          }
        }
        Err(_) => {
          if want {
            ctx.violation("NetworkName::try_from|valid-name-rejected", &format!("{name:?}"), &case);
          }
        }
      }
    }
    _ => {
      let p = r.as_ref().err().or(r2.as_ref().err()).or(r3.as_ref().err()).expect("one panicked");
      ctx.violation(&format!("NetworkName::try_from|{}", pkey(p)), &format!("{name:?}: {}", p.msg), &case);
    }
  }
  // the constructors from a `&'static str` (no validation may be skipped because the name is a constant)
  if let Some(st) = STATIC_NAMES.iter().chain(STATIC_INVALID_NAMES.iter()).find(|n| **n == name) {
    let r4 = guard(|| <NetworkName as TryFrom<&'static str>>::try_from(*st).ok().map(|n| n.as_ref().to_owned()));
    let r5 = guard(|| NetworkName::try_from(*st).ok().map(|n| n.as_ref().to_owned()));
    let r6 = guard(|| NetworkName::try_from(std::borrow::Cow::Borrowed(*st)).ok().map(|n| n.as_ref().to_owned()));
    for (entry, r) in [("TryFrom<&'static str>", r4), ("try_from(&'static str)", r5), ("try_from(Cow::Borrowed)", r6)] {
      match r {
        Err(p) => ctx.violation(&format!("NetworkName::try_from|{}", pkey(&p)), &format!("{entry} {name:?}: {}", p.msg), &case),
        Ok(Some(got)) => {
          if !want {
            ctx.violation("NetworkName::try_from(&'static str)|accepted|invalid-network-name", &format!("{entry} {name:?}"), &case);
          } else if got != name {
            ctx.violation("NetworkName::try_from(&'static str)|name-not-verbatim", &format!("{entry} {name:?} -> {got:?}"), &case);
          }
        }
        Ok(None) => {
          if want {
            ctx.violation("NetworkName::try_from(&'static str)|valid-name-rejected", &format!("{entry} {name:?}"), &case);
          }
        }
      }
    }
  }
  // serde
  let rs = guard(|| serde_json::from_value::<NetworkName>(json!(name)));
  let mut de = "Err";
  match rs {
    Err(p) => ctx.violation(&format!("NetworkName::deserialize|{}", pkey(&p)), &format!("{name:?}: {}", p.msg), &case),
    Ok(Err(_)) => {
      if want {
        ctx.violation("NetworkName::deserialize|valid-name-rejected", &format!("{name:?}"), &case);
      }
    }
    Ok(Ok(n)) => {
      de = "Ok";
      if !want {
        // what the constructors do with such a name (they are documented as infallible)
        let built = guard(|| IotaDID::new(&[7u8; 32], &n).as_str().to_owned());
        let placeholder = guard(|| IotaDID::placeholder(&n).as_str().to_owned());
        ctx.violation(
          "NetworkName::deserialize|accepted|invalid-network-name",
          &format!(
            "NetworkName deserialized from {:?} holds {:?}; IotaDID::new with it: {}; placeholder: {}",
            json!(name).to_string(),
            n.as_ref(),
            match &built {
              Ok(s) => format!("returns {s:?}"),
              Err(p) => format!("panics ({})", p.msg.chars().take(60).collect::<String>()),
            },
            match &placeholder {
              Ok(s) => format!("returns {s:?}"),
              Err(_) => "panics".to_string(),
            }
          ),
          &case,
        );
      } else if n.as_ref() != name {
        ctx.violation("NetworkName::deserialize|name-not-verbatim", &format!("{name:?} -> {:?}", n.as_ref()), &case);
      }
      if serde_json::to_value(&n).ok() != Some(json!(name)) {
        ctx.violation("NetworkName::serialize|not-the-name", &format!("{name:?}"), &case);
      }
    }
  }
  l.outcome(format!("net: valid={want} try_from={} deserialize={de}{fmt}", if matches!(r, Ok(Ok(_))) { "Ok" } else { "Err" }));
  if want || de == "Ok" {
    l.distinct(&(2u8, name));
  }
}

fn tag_from_hex(tag: &str) -> Option<[u8; 32]> {
  tag_bytes_any_case(&format!("0x{tag}"))
}


/// The name through every constructor of `NetworkName`: (origin, name). Origins that refuse are left out
/// (whether they should is judged by the Net cases).
fn names_by_origin(network: &str) -> Vec<(&'static str, NetworkName)> {
  let mut out = Vec::new();
  if let Ok(Ok(n)) = guard(|| NetworkName::try_from(network.to_owned())) {
    out.push(("try_from(String)", n));
  }
  if let Ok(Ok(n)) = guard(|| <NetworkName as TryFrom<String>>::try_from(network.to_owned())) {
    out.push(("TryFrom<String>", n));
  }
  if let Some(st) = STATIC_NAMES.iter().find(|n| **n == network) {
    if let Ok(Ok(n)) = guard(|| <NetworkName as TryFrom<&'static str>>::try_from(*st)) {
      out.push(("TryFrom<&'static str>", n));
    }
  }
  if let Ok(Ok(n)) = guard(|| serde_json::from_value::<NetworkName>(json!(network))) {
    out.push(("deserialize", n));
  }
  out
}

fn eval_new(ctx: &Ctx, tag: &str, network: &str, l: &mut Local) {
  l.evals += 1;
  let case = Case::New { tag: tag.to_owned(), network: network.to_owned() };
  let names = names_by_origin(network);
  let (Some(bytes), false) = (tag_from_hex(tag), names.is_empty()) else {
    l.outcome("new: tag or network not constructible (not judged)");
    return;
  };
  if !valid_network(network) {
    l.outcome("new: network accepted by a NetworkName constructor but invalid (judged by Net case)");
    return;
  }
  let want = if network == "iota" { format!("did:iota:0x{tag}") } else { format!("did:iota:{network}:0x{tag}") };
  let mut first: Option<IotaDID> = None;
  for (origin, name) in &names {
    match guard(|| IotaDID::new(&bytes, name)) {
      Err(p) => ctx.violation(&format!("IotaDID::new|valid-arguments|{}", pkey(&p)), &format!("new({tag}, {network:?} obtained by {origin}): {}", p.msg), &case),
      Ok(v) => {
        // the first value goes through the whole judgement, the others must simply be that value
        match &first {
          None => {
            if judge(ctx, "IotaDID::parse", "IotaDID::new", &want, &v, &case) {
              let ok = guard(|| v.as_str() == want && v.network_str() == network && tag_bytes_any_case(v.tag_str()) == Some(bytes)).unwrap_or(false);
              if !ok {
                ctx.violation("IotaDID::new|exposes-other-tag-or-network", &format!("new({tag}, {network:?}) = {:?}", v.as_str()), &case);
              }
            }
            first = Some(v);
          }
          Some(f) => {
            if guard(|| *f != v || f.as_str() != v.as_str()).unwrap_or(true) {
              ctx.violation("IotaDID::new|depends-on-how-the-name-was-obtained", &format!("new({tag}, {network:?}): {:?} with the name from {}, {:?} with the name from {origin}", f.as_str(), names[0].0, v.as_str()), &case);
            }
          }
        }
      }
    }
    if bytes == [0u8; 32] {
      match guard(|| IotaDID::placeholder(name)) {
        Err(p) => ctx.violation(&format!("IotaDID::placeholder|valid-arguments|{}", pkey(&p)), &p.msg, &case),
        Ok(v) => {
          let ok = guard(|| v.is_placeholder() && v.as_str() == want && v.network_str() == network && v.tag_str() == IotaDID::PLACEHOLDER_TAG && IotaDID::parse(v.as_str()).ok().as_ref() == Some(&v)).unwrap_or(false);
          if !ok {
            ctx.violation("IotaDID::placeholder|not-the-placeholder-of-that-network", &format!("placeholder({network:?}) = {:?}", v.as_str()), &case);
          }
        }
      }
    }
  }
  l.outcome(if first.is_some() { "new: returned" } else { "new: PANIC" });
  l.distinct(&(3u8, tag, network));
}

fn eval_alias(ctx: &Ctx, alias: &str, network: &str, l: &mut Local) {
  l.evals += 1;
  let case = Case::Alias { alias: alias.to_owned(), network: network.to_owned() };
  let Ok(Ok(name)) = guard(|| NetworkName::try_from(network.to_owned())) else {
    l.outcome("from_alias_id: network not constructible (not judged)");
    return;
  };
  match guard(|| IotaDID::from_alias_id(alias, &name)) {
    // documented as a constructor from "a hex representation of an Alias Id"; what it does with anything else
    // is outside the statement (swept by C05) — recorded only
    Err(p) => {
      // "a hex representation of an Alias Id" is `0x` + 64 hex digits (digits of either case: hex digits are
      // case-insensitive); an upper-case `0X` prefix is not something the documentation promises to take
      let is_alias_id = tag_bytes_any_case(alias).is_some() && alias.starts_with("0x");
      if is_alias_id && valid_network(network) {
        ctx.violation(&format!("IotaDID::from_alias_id|valid-arguments|{}", pkey(&p)), &format!("from_alias_id({alias:?}, {network:?}): {}", p.msg), &case);
      }
      l.outcome(if is_alias_id { "from_alias_id: PANIC on a hex alias id" } else { "from_alias_id: panic on a non-alias-id (not judged)" })
    }
    Ok(v) => {
      let given = format!("did:iota:{network}:{alias}");
      if judge(ctx, "IotaDID::parse", "IotaDID::from_alias_id", &given, &v, &case) {
        let ok = guard(|| v.network_str() == network && tag_bytes_any_case(v.tag_str()) == tag_bytes_any_case(alias)).unwrap_or(false);
        if !ok {
          ctx.violation("IotaDID::from_alias_id|exposes-other-tag-or-network", &format!("from_alias_id({alias:?}, {network:?}) = {:?}", v.as_str()), &case);
        }
      }
      l.outcome("from_alias_id: returned");
      l.distinct(&(4u8, alias, network));
    }
  }
}

/// Build a pool value; None when the path does not accept (recorded by the Str cases) or the value is not clean.
fn build(b: &Build) -> Option<IotaDID> {
  let lower = if b.network == "iota" { format!("did:iota:0x{}", b.tag) } else { format!("did:iota:{}:0x{}", b.network, b.tag) };
  let explicit = format!("did:iota:{}:0x{}", b.network, b.tag);
  let bytes = tag_from_hex(&b.tag)?;
  let r = guard(|| -> Option<IotaDID> {
    match b.path {
      0 => IotaDID::parse(&lower).ok(),
      1 => IotaDID::parse(lower.to_ascii_uppercase().replace("0X", "0x")).ok(),
      2 => IotaDID::parse(&explicit).ok(),
      3 => IotaDID::from_str(&lower).ok(),
      4 => IotaDID::try_from_core(CoreDID::parse(&lower).ok()?).ok(),
      5 => IotaDID::try_from(BaseDIDUrl::parse(&lower).ok()?).ok(),
      6 => serde_json::from_value::<IotaDID>(json!(lower)).ok(),
      7 => Some(IotaDID::new(&bytes, &NetworkName::try_from(b.network.clone()).ok()?)),
      8 => Some(IotaDID::from_alias_id(&format!("0x{}", b.tag), &NetworkName::try_from(b.network.clone()).ok()?)),
      _ => (bytes == [0u8; 32]).then(|| NetworkName::try_from(b.network.clone()).ok()).flatten().map(|n| IotaDID::placeholder(&n)),
    }
  });
  let v = r.ok()??;
  // only clean values enter the comparison pool (others are reported where they are produced)
  let (net, tag) = normal_form(v.as_str()).ok()?;
  (net == b.network && tag == bytes).then_some(v)
}

fn eval_eq(ctx: &Ctx, a: &Build, b: &Build, x: &IotaDID, y: &IotaDID, l: &mut Local) -> Ordering {
  l.evals += 1;
  let case = || Case::Eq { a: a.clone(), b: b.clone() };
  let same = a.network == b.network && a.tag == b.tag;
  let eq = x == y;
  let (xy, yx) = (x.cmp(y), y.cmp(x));
  if eq != same {
    ctx.violation(
      if same { "IotaDID::eq|same-network-and-tag|not-equal" } else { "IotaDID::eq|different-network-or-tag|equal" },
      &format!("{:?} (path {}) vs {:?} (path {})", x.as_str(), a.path, y.as_str(), b.path),
      &case(),
    );
  }
  if eq != (y == x) {
    ctx.violation("IotaDID::eq|not-symmetric", "", &case());
  }
  if eq != (xy == Ordering::Equal) || xy != yx.reverse() || x.partial_cmp(y) != Some(xy) {
    ctx.violation("IotaDID::cmp|disagrees-with-eq", &format!("{:?} vs {:?}: eq {eq} cmp {xy:?}/{yx:?}", x.as_str(), y.as_str()), &case());
  }
  if eq && hash_of(x) != hash_of(y) {
    ctx.violation("IotaDID::hash|equal-values-hash-differently", &format!("{:?}", x.as_str()), &case());
  }
  l.outcome(if eq { "eq: equal" } else { "eq: unequal" });
  xy
}

fn transitive(xy: Ordering, yz: Ordering, xz: Ordering) -> bool {
  use Ordering::*;
  match (xy, yz) {
    (Less, Less) | (Less, Equal) | (Equal, Less) => xz == Less,
    (Greater, Greater) | (Greater, Equal) | (Equal, Greater) => xz == Greater,
    (Equal, Equal) => xz == Equal,
    _ => true,
  }
}

// ------------------------------------------------------------------------------------------------ owning conversions
// A call that does not return cannot be guarded in-process, so `String::from(IotaDID)` / `into_string` run in a
// child process. No wall-clock time enters the verdict: the child gives itself a CPU-time budget for the
// conversion (RLIMIT_CPU) and the kernel ends it with SIGXCPU only after it has really *consumed* that much CPU
// — a slow or overloaded machine makes the probe slower, never "non-terminating". The conversion is a move of
// one String (nanoseconds of work); the budget is nine orders of magnitude above that.

/// CPU seconds the child may consume inside the conversion before it counts as spinning.
const PROBE_CPU_S: u64 = 5;
/// Wall-clock backstop of the parent (a child that neither finishes nor consumes CPU): machinery, never a verdict.
const PROBE_WALL_BACKSTOP_S: u64 = 900;

enum Probe {
  /// the conversion returned this string
  Returned(String),
  /// the conversion demonstrably does not return: the CPU budget was consumed inside it, or the process died
  /// of a fatal signal (stack exhaustion by unbounded recursion) between "started" and "done"
  NeverReturned(String),
  /// the conversion unwound
  Panicked,
  /// `IotaDID::parse` gave no value in the child (judged by the Str cases)
  NotParsed,
  /// the probe itself did not work: a machinery note, never a verdict
  Machinery(String),
}

/// Body of the child process (`C17_PROBE=<via>:<did>`): prints "started", converts, prints "done:<string>".
fn probe_child_main(arg: &str) {
  use std::io::Write;
  let say = |line: &str| {
    println!("{line}");
    std::io::stdout().flush().ok();
  };
  let Some((via, s)) = arg.split_once(':') else { return say("bad-argument") };
  let did = match std::panic::catch_unwind(|| IotaDID::parse(s)) {
    Ok(Ok(d)) => d,
    _ => return say("not-parsed"),
  };
  // no core files; CPU budget = what start-up has used so far + PROBE_CPU_S
  let armed = unsafe {
    let none = libc::rlimit { rlim_cur: 0, rlim_max: 0 };
    libc::setrlimit(libc::RLIMIT_CORE, &none);
    let mut ru: libc::rusage = std::mem::zeroed();
    libc::getrusage(libc::RUSAGE_SELF, &mut ru);
    let used = (ru.ru_utime.tv_sec + ru.ru_stime.tv_sec) as u64 + 2;
    // only the soft limit is lowered (that needs no privilege whatever the inherited hard limit is)
    let mut lim = libc::rlimit { rlim_cur: libc::RLIM_INFINITY, rlim_max: libc::RLIM_INFINITY };
    libc::getrlimit(libc::RLIMIT_CPU, &mut lim) == 0 && {
      lim.rlim_cur = ((used + PROBE_CPU_S) as libc::rlim_t).min(lim.rlim_max);
      libc::setrlimit(libc::RLIMIT_CPU, &lim) == 0
    }
  };
  if !armed {
    return say("no-cpu-limit");
  }
  say("started");
  let out = std::panic::catch_unwind(move || -> String {
    match via {
      "0" => String::from(did),
      "1" => did.into_string(),
      _ => Into::<String>::into(did),
    }
  });
  match out {
    Ok(out) => say(&format!("done:{out}")),
    Err(_) => say("panicked"),
  }
}

fn probe_into_string(s: &str, via: u8) -> Probe {
  use std::io::BufRead;
  use std::os::unix::process::ExitStatusExt;
  use std::process::{Command, Stdio};
  let Ok(exe) = std::env::current_exe() else { return Probe::Machinery("current_exe".into()) };
  let mut child = match Command::new(exe).env("C17_PROBE", format!("{via}:{s}")).stdin(Stdio::null()).stdout(Stdio::piped()).stderr(Stdio::null()).spawn() {
    Ok(c) => c,
    Err(e) => return Probe::Machinery(format!("spawn: {e}")),
  };
  let Some(out) = child.stdout.take() else { return Probe::Machinery("no stdout pipe".into()) };
  let reader = std::thread::spawn(move || std::io::BufReader::new(out).lines().map_while(Result::ok).collect::<Vec<String>>());
  let t0 = std::time::Instant::now();
  let status = loop {
    match child.try_wait() {
      Ok(Some(st)) => break st,
      Ok(None) => {
        if t0.elapsed().as_secs() > PROBE_WALL_BACKSTOP_S {
          let _ = child.kill();
          let _ = child.wait();
          return Probe::Machinery(format!("the child neither finished nor used up its CPU budget within {PROBE_WALL_BACKSTOP_S} s of wall-clock time"));
        }
        std::thread::sleep(std::time::Duration::from_millis(5));
      }
      Err(e) => return Probe::Machinery(format!("wait: {e}")),
    }
  };
  let lines = reader.join().unwrap_or_default();
  if let Some(v) = lines.iter().find_map(|l| l.strip_prefix("done:")) {
    return Probe::Returned(v.to_owned());
  }
  if lines.iter().any(|l| l == "panicked") {
    return Probe::Panicked;
  }
  if lines.iter().any(|l| l == "not-parsed") {
    return Probe::NotParsed;
  }
  if !lines.iter().any(|l| l == "started") {
    return Probe::Machinery(format!("the child ended ({status:?}) before it started the conversion; output {lines:?}"));
  }
  match status.signal() {
    Some(libc::SIGXCPU) => Probe::NeverReturned(format!("consumed {PROBE_CPU_S} s of CPU time inside the conversion without returning (ended by SIGXCPU)")),
    Some(sig) if [libc::SIGSEGV, libc::SIGBUS, libc::SIGABRT].contains(&sig) => Probe::NeverReturned(format!("the process died of signal {sig} inside the conversion (stack exhausted by unbounded recursion)")),
    _ => Probe::Machinery(format!("the child ended ({status:?}) inside the conversion for a reason that is not the conversion's")),
  }
}

const VIA_NAMES: [&str; 3] = ["String::from(IotaDID)", "DID::into_string(IotaDID)", "Into::<String>::into(IotaDID)"];

/// Judge one probe result (shared by the explorer and by replay).
fn judge_probe(ctx: &Ctx, s: &str, via: u8, r: Probe) -> &'static str {
  let case = Case::IntoString { s: s.to_owned(), via };
  let name = VIA_NAMES[via.min(2) as usize];
  match r {
    Probe::Machinery(why) => {
      ctx.require(false, &format!("into_string probe did not work ({name} of {s:?}): {why}"));
      "into_string: probe could not run"
    }
    Probe::NotParsed => "into_string: input rejected by parse (not judged)",
    Probe::Returned(out) => {
      let want = guard(|| IotaDID::parse(s).map(|d| d.as_str().to_owned()).ok()).ok().flatten();
      if Some(&out) != want.as_ref() {
        ctx.violation("IotaDID::into_string|differs-from-as_str", &format!("{name} of {s:?} = {out:?}, as_str {want:?}"), &case);
      }
      "into_string: returned the string form"
    }
    Probe::Panicked => {
      ctx.violation("IotaDID::into_string|panics", &format!("{name} of the value parsed from {s:?} unwinds"), &case);
      "into_string: PANIC"
    }
    Probe::NeverReturned(how) => {
      ctx.violation("IotaDID::into_string|never-returns", &format!("{name} of the value parsed from {s:?}: {how}"), &case);
      "into_string: NEVER RETURNED"
    }
  }
}

fn eval_into_string(ctx: &Ctx, s: &str, via: u8, l: &mut Local) {
  l.evals += 1;
  let label = judge_probe(ctx, s, via, probe_into_string(s, via));
  l.outcome(label);
  l.distinct(&(6u8, s, via));
}

fn eval_local(ctx: &Ctx, case: &Case, l: &mut Local) {
  match case {
    Case::IntoString { s, via } => eval_into_string(ctx, s, *via, l),
    Case::Str { s } => eval_str(ctx, s, l),
    Case::Net { name } => eval_net(ctx, name, l),
    Case::New { tag, network } => eval_new(ctx, tag, network, l),
    Case::Alias { alias, network } => eval_alias(ctx, alias, network, l),
    Case::Eq { a, b } => match (build(a), build(b)) {
      (Some(x), Some(y)) => {
        eval_eq(ctx, a, b, &x, &y, l);
      }
      _ => l.outcome("eq: a member is not constructible/clean on this tree (not judged)"),
    },
    Case::Trans { a, b, c } => match (build(a), build(b), build(c)) {
      (Some(x), Some(y), Some(z)) => {
        l.evals += 1;
        if !transitive(x.cmp(&y), y.cmp(&z), x.cmp(&z)) {
          ctx.violation("IotaDID::cmp|not-transitive", &format!("{:?} {:?} {:?}", x.as_str(), y.as_str(), z.as_str()), case);
        }
        l.outcome("trans");
      }
      _ => l.outcome("trans: a member is not constructible/clean on this tree (not judged)"),
    },
  }
}
fn eval(ctx: &Ctx, case: &Case) {
  let mut l = Local::default();
  eval_local(ctx, case, &mut l);
  l.merge(ctx);
}

// ------------------------------------------------------------------------------------------------ enumeration

fn run_list(ctx: &Ctx, part: &str, cases: &[Case]) {
  cases
    .par_iter()
    .fold(Local::default, |mut l, c| {
      eval_local(ctx, c, &mut l);
      l
    })
    .for_each(|l| l.merge(ctx));
  for i in [0, cases.len() / 3, cases.len() / 2, cases.len() - 1] {
    ctx.sample(part, &cases[i]);
  }
  ctx.add_states(cases.len() as u64);
  ctx.add_transitions(cases.len() as u64);
  ctx.add_traces(cases.len() as u64);
  ctx.part(part, json!({"engine": "E1 full product", "cases": cases.len()}));
}

/// all strings over `sigma` of length ≤ n
fn strings(sigma: &[&str], n: u32) -> Vec<String> {
  let mut out = vec![String::new()];
  let mut layer = vec![String::new()];
  for _ in 0..n {
    let mut next = Vec::with_capacity(layer.len() * sigma.len());
    for s in &layer {
      for c in sigma {
        next.push(format!("{s}{c}"));
      }
    }
    out.extend(next.iter().cloned());
    layer = next;
  }
  out
}

const TAG_A: &str = "f29dd16310c2100fd1bf568b345fb1cc14d71caa3bd9b5ad735d2bd6d455ca3b";
const TAG_B: &str = "0123456789abcdef0123456789abcdef0123456789abcdef0123456789abcdef";
const TAG_0: &str = "0000000000000000000000000000000000000000000000000000000000000000";

/// Every ASCII character plus the non-ASCII characters that Unicode-aware classifications or case mappings would
/// let through where the ASCII ones are meant (lowercase letters, digits of other scripts, characters whose
/// lower-case form is ASCII, invisible characters).
fn char_table() -> Vec<String> {
  let mut t: Vec<String> = (0u8..128).map(|b| (b as char).to_string()).collect();
  for c in ['\u{80}', '\u{a0}', 'ª', '²', 'ß', 'é', 'É', 'İ', 'ı', 'ſ', 'ǅ', '\u{212A}', '\u{212B}', '٣', '０', 'ａ', 'Ａ', '\u{200b}', '\u{feff}', '𝐚', '𝟎'] {
    t.push(c.to_string());
  }
  t
}

/// Each character of the table at each position of an otherwise valid name, lengths 1..=7 (7 is one too long).
fn names_from_table(table: &[String]) -> Vec<String> {
  let base = ["a", "b", "c", "d", "e", "f", "0"];
  let mut out = Vec::new();
  for len in 1..=7usize {
    for pos in 0..len {
      for c in table {
        let mut n = String::new();
        for (i, b) in base.iter().enumerate().take(len) {
          n.push_str(if i == pos { c } else { b });
        }
        out.push(n);
      }
    }
  }
  out
}

fn structured_tags(n: usize) -> Vec<String> {
  let mut t: Vec<[u8; 32]> = Vec::new();
  t.push([0; 32]);
  t.push([0xff; 32]);
  t.push([0xab; 32]);
  t.push([0x0a; 32]);
  t.push([0xa0; 32]);
  let mut asc = [0u8; 32];
  for (i, b) in asc.iter_mut().enumerate() {
    *b = i as u8;
  }
  t.push(asc);
  let mut desc = [0u8; 32];
  for (i, b) in desc.iter_mut().enumerate() {
    *b = 255 - i as u8;
  }
  t.push(desc);
  // every byte value occurs in some tag
  for k in 1..8u8 {
    let mut run = [0u8; 32];
    for (i, b) in run.iter_mut().enumerate() {
      *b = k * 32 + i as u8;
    }
    t.push(run);
  }
  for i in 0..32 {
    let mut one = [0u8; 32];
    one[i] = 0x01;
    t.push(one);
    let mut hi = [0u8; 32];
    hi[i] = 0xf0;
    t.push(hi);
    let mut inv = [0xffu8; 32];
    inv[i] = 0x00;
    t.push(inv);
  }
  t.truncate(n);
  t.iter().map(|b| hex_lower(b)).collect()
}

fn generate(ctx: &Ctx) {
  ctx.rule("full products of the stated grids, every case on all entry points; distinct_nontrivial = distinct inputs that denote an IOTA DID (read case-insensitively), are non-ASCII, or are accepted/panic on at least one entry point; distinct valid or serde-accepted network names; distinct constructor arguments; distinct pool pairs");
  ctx.assume("the reference model (normal form, case-insensitive denotation) is written from the property statement and the IOTA DID method specification; std ASCII case mapping and serde_json are trusted");
  ctx.assume("CoreDID-level defects (property C10) surface here only through the IOTA entry points; a panic raised inside CoreDID::parse is keyed as CoreDID::parse");
  // owning conversions to String, probed in child processes while the rest runs
  let probe_inputs: Vec<(String, u8)> = [format!("did:iota:0x{TAG_A}"), format!("did:iota:smr:0x{TAG_0}")].into_iter().flat_map(|s| (0..3u8).map(move |v| (s.clone(), v))).collect();
  let probes: Vec<std::thread::JoinHandle<(String, u8, Probe)>> =
    probe_inputs.iter().cloned().map(|(s, v)| std::thread::spawn(move || {
      let r = probe_into_string(&s, v);
      (s, v, r)
    })).collect();
  // (a) grid
  let schemes = ["did", "DID", "dod"];
  let methods = ["iota", "IOTA", "Iota", "iot", "iotaa", "aiota", "key"];
  let nets: [Option<&str>; 25] = [
    None, Some("iota"), Some("IOTA"), Some("Iota"), Some("main"), Some("smr"), Some("SMR"), Some("a"), Some("123456"), Some("1234567"), Some("Ma-in"), Some(""), Some("féta"), Some("\u{212A}ek"), Some("rms:x"),
    Some(" smr"), Some("sm r"),
    // an extra leading default-network segment (normalising must not come before validating), the default network
    // in second position, a name that only a Unicode case mapping turns into ASCII
    Some("iota:smr"), Some("iota:iota"), Some("IOTA:smr"), Some("smr:iota"), Some("\u{212A}"),
    // names that have the default network's name as a prefix / suffix, or are a prefix of it
    Some("iot"), Some("iotaa"), Some("aiota"),
  ];
  let up = |s: &str| s.to_ascii_uppercase();
  let mixed: String = TAG_A.chars().enumerate().map(|(i, c)| if i % 2 == 0 { c.to_ascii_uppercase() } else { c }).collect();
  let mut tags: Vec<String> = vec![
    format!("0x{TAG_A}"),
    format!("0x{TAG_B}"),
    format!("0x{TAG_0}"),
    format!("0x{}", up(TAG_A)),
    format!("0x{mixed}"),
    format!("0X{TAG_A}"),
    format!("0X{}", up(TAG_A)),
    TAG_A.to_string(),
    format!("0x{}", &TAG_A[..63]),
    format!("0x{TAG_A}a"),
    format!("0x{TAG_A}ab"),
    format!("0x{}", &TAG_A[..62]),
    String::new(),
    "0x".to_string(),
    format!("0x{}%41", &TAG_A[..61]),
    format!("0x{}é", &TAG_A[..62]),
  ];
  for pos in [2usize, 33, 65] {
    let mut t: Vec<char> = format!("0x{TAG_A}").chars().collect();
    t[pos] = 'g';
    tags.push(t.iter().collect());
  }
  let suffixes = ["", "/p", "?q", "#f", "/p?q#f", " ", "\n", "#", "?", ":", "%41", "/"];
  let prefixes = ["", " ", "\n"];
  let mut cases: Vec<Case> = Vec::new();
  for sc in schemes {
    for m in methods {
      for n in nets {
        for t in &tags {
          for sfx in suffixes {
            for pre in prefixes {
              let s = match n {
                None => format!("{pre}{sc}:{m}:{t}{sfx}"),
                Some(n) => format!("{pre}{sc}:{m}:{n}:{t}{sfx}"),
              };
              cases.push(Case::Str { s });
            }
          }
        }
      }
    }
  }
  run_list(ctx, "string grid scheme x method x network x tag x suffix x prefix", &cases);
  // (a2) every sequence of leading segments in front of a tag
  let seg_sigma: Vec<String> = vec!["iota".into(), "IOTA".into(), "smr".into(), "a".into(), String::new(), "1234567".into(), "main".into(), format!("0x{TAG_A}")];
  let seg_depth = ctx.by_tier(3, 5);
  let seg_tags = [format!("0x{TAG_A}"), format!("0x{TAG_0}"), format!("0x{}", up(TAG_A)), format!("0x{}", &TAG_A[..63])];
  let mut cases: Vec<Case> = Vec::new();
  let mut layer: Vec<String> = vec![String::new()];
  for depth in 0..=seg_depth {
    for lead in &layer {
      for t in &seg_tags {
        for sfx in ["", ":"] {
          cases.push(Case::Str { s: format!("did:iota:{lead}{t}{sfx}") });
        }
      }
    }
    if depth < seg_depth {
      layer = layer.iter().flat_map(|l| seg_sigma.iter().map(move |g| format!("{l}{g}:"))).collect();
    }
  }
  run_list(ctx, "leading segment sequences x tag", &cases);
  // (b) every single-character substitution of the tag, every short network name inside a DID
  // the complete ASCII table, deletion, and characters that Unicode case mappings / digit classes confuse
  let table = char_table();
  let mut subs: Vec<String> = table.clone();
  subs.push(String::new());
  let mut cases: Vec<Case> = Vec::new();
  let full = format!("0x{TAG_A}");
  for net in ["", "smr:", "iota:"] {
    for pos in 0..full.len() {
      for r in &subs {
        cases.push(Case::Str { s: format!("did:iota:{net}{}{r}{}", &full[..pos], &full[pos + 1..]) });
      }
    }
    for len in 0..=full.len() {
      cases.push(Case::Str { s: format!("did:iota:{net}{}", &full[..len]) });
    }
    // longer than 32 bytes: 1..=6 more digits, twice the length
    for more in 1..=6 {
      cases.push(Case::Str { s: format!("did:iota:{net}{full}{}", &TAG_B[..more]) });
    }
    cases.push(Case::Str { s: format!("did:iota:{net}{full}{TAG_B}") });
  }
  // two simultaneous substitutions (non-hex letters of both cases, the neighbours of the digit range, a separator)
  let pair_subs: Vec<&str> = ctx.by_tier(vec!["g", "Z", ":", "/"], vec!["g", "Z", ":", "/", "G", "z", "@", "`", "_", "X"]);
  let pair_positions: Vec<usize> = (0..full.len()).collect();
  for net in ["", "smr:"] {
    for (i, p) in pair_positions.iter().enumerate() {
      for q in &pair_positions[i + 1..] {
        for a in &pair_subs {
          for b in &pair_subs {
            cases.push(Case::Str { s: format!("did:iota:{net}{}{a}{}{b}{}", &full[..*p], &full[p + 1..*q], &full[q + 1..]) });
          }
        }
      }
    }
  }
  let net_sigma = ["a", "Z", "0", "-", "é"];
  for n in strings(&net_sigma, ctx.by_tier(5, 7)) {
    cases.push(Case::Str { s: format!("did:iota:{n}:0x{TAG_A}") });
  }
  // every character of the table at every position of a network name of length 1..=7, inside a DID
  let table_names = names_from_table(&table);
  for n in &table_names {
    cases.push(Case::Str { s: format!("did:iota:{n}:0x{TAG_A}") });
  }
  run_list(ctx, "tag substitutions/truncations/extensions and embedded network names", &cases);
  // (c) network names
  let mut cases: Vec<Case> = strings(&net_sigma, 7).into_iter().map(|name| Case::Net { name }).collect();
  let wide = ["a", "z", "Z", "0", "9", "-", "é", " ", ":", "_"];
  cases.extend(strings(&wide, ctx.by_tier(4, 6)).into_iter().map(|name| Case::Net { name }));
  for name in STATIC_NAMES.iter().chain(STATIC_INVALID_NAMES.iter()) {
    cases.push(Case::Net { name: name.to_string() });
  }
  cases.extend(table_names.iter().map(|name| Case::Net { name: name.clone() }));
  run_list(ctx, "network names", &cases);
  // (d) constructors
  let alnum: Vec<&str> = "abcdefghijklmnopqrstuvwxyz0123456789".split("").filter(|s| !s.is_empty()).collect();
  let mut names: Vec<String> = strings(&alnum, ctx.by_tier(2, 3)).into_iter().filter(|s| !s.is_empty()).collect();
  names.extend(["iota", "main", "dev", "smr", "rms", "test", "foo", "foobar", "123456", "foo42", "bar123", "42foo", "zzzzzz", "iot", "iotaa", "aiota", "iota0", "0iota", "iotb"].map(String::from));
  names.sort();
  names.dedup();
  let tags_c = structured_tags(ctx.by_tier(100, 24));
  let mut cases: Vec<Case> = Vec::new();
  for t in &tags_c {
    for n in &names {
      cases.push(Case::New { tag: t.clone(), network: n.clone() });
    }
  }
  run_list(ctx, "new/placeholder: structured tags x valid network names", &cases);
  let mut cases: Vec<Case> = Vec::new();
  for t in &tags {
    for sfx in suffixes {
      for n in ["iota", "smr", "a", "123456"] {
        cases.push(Case::Alias { alias: format!("{t}{sfx}"), network: n.into() });
      }
    }
  }
  for t in tags_c.iter().take(24) {
    for n in ["iota", "smr"] {
      cases.push(Case::Alias { alias: format!("0x{t}"), network: n.into() });
      cases.push(Case::Alias { alias: format!("0x{}", t.to_ascii_uppercase()), network: n.into() });
    }
  }
  // an "alias id" that brings segments of its own, a non-hex alphanumeric at every position
  for n in ["iota", "smr"] {
    for lead in ["iota:", "smr:", "iota:iota:", ":"] {
      cases.push(Case::Alias { alias: format!("{lead}0x{TAG_A}"), network: n.into() });
    }
    for pos in 0..full.len() {
      for r in ["g", "Z", "_", "\u{212A}"] {
        cases.push(Case::Alias { alias: format!("{}{r}{}", &full[..pos], &full[pos + 1..]), network: n.into() });
      }
    }
  }
  run_list(ctx, "from_alias_id: tag grid x suffixes x network names", &cases);
  // (e) comparison pool: every construction path × (network, tag)
  let mut builds: Vec<Build> = Vec::new();
  // neighbours: tags that differ in the first / the last digit only, a tag that is the placeholder but for its last bit
  let tag_a_first = format!("e{}", &TAG_A[1..]);
  let tag_a_last = format!("{}c", &TAG_A[..63]);
  let tag_one = format!("{}1", &TAG_0[..63]);
  for network in ["iota", "smr", "sms", "a", "0", "123456", "iot", "iotaa"] {
    for tag in [TAG_A, &tag_a_first, &tag_a_last, TAG_B, TAG_0, &tag_one, &hex_lower(&[0xab; 32]), &hex_lower(&[0xff; 32])] {
      for path in 0..10u8 {
        builds.push(Build { path, network: network.into(), tag: tag.to_string() });
      }
    }
  }
  let pool: Vec<(Build, IotaDID)> = builds.iter().filter_map(|b| build(b).map(|v| (b.clone(), v))).collect();
  ctx.require(pool.len() >= 200, &format!("comparison pool too small: {} of {}", pool.len(), builds.len()));
  let paths_present: std::collections::BTreeSet<u8> = pool.iter().map(|(b, _)| b.path).collect();
  ctx.require(paths_present.len() >= 8, &format!("construction paths in the pool: {paths_present:?}"));
  let np = pool.len();
  let cmp: Vec<Vec<Ordering>> = (0..np)
    .into_par_iter()
    .map(|i| {
      let mut l = Local::default();
      let row = (0..np)
        .map(|j| {
          l.distinct(&(5u8, i, j));
          eval_eq(ctx, &pool[i].0, &pool[j].0, &pool[i].1, &pool[j].1, &mut l)
        })
        .collect();
      l.merge(ctx);
      row
    })
    .collect();
  // all triples over the comparison matrix; the first few offenders (in index order) are re-evaluated as cases
  let offenders: Vec<(u64, Vec<(usize, usize, usize)>)> = (0..np)
    .into_par_iter()
    .map(|i| {
      let mut n = 0u64;
      let mut first = Vec::new();
      for j in 0..np {
        for k in 0..np {
          if !transitive(cmp[i][j], cmp[j][k], cmp[i][k]) {
            n += 1;
            if first.len() < 8 {
              first.push((i, j, k));
            }
          }
        }
      }
      (n, first)
    })
    .collect();
  let intransitive: u64 = offenders.iter().map(|(n, _)| n).sum();
  for (i, j, k) in offenders.iter().flat_map(|(_, f)| f.iter().copied()).take(8) {
    eval(ctx, &Case::Trans { a: pool[i].0.clone(), b: pool[j].0.clone(), c: pool[k].0.clone() });
  }
  if np >= 2 {
    eval(ctx, &Case::Trans { a: pool[0].0.clone(), b: pool[1].0.clone(), c: pool[np - 1].0.clone() });
    ctx.sample("pool pairs", &Case::Eq { a: pool[0].0.clone(), b: pool[np - 1].0.clone() });
    ctx.sample("pool triples", &Case::Trans { a: pool[0].0.clone(), b: pool[1].0.clone(), c: pool[np - 1].0.clone() });
  }
  ctx.add_states(np as u64);
  ctx.add_transitions((np * np) as u64);
  ctx.add_traces((np * np) as u64);
  ctx.add_evals((np * np * np) as u64);
  ctx.outcome_n("trans", (np * np * np) as u64 - intransitive);
  ctx.part(
    "Eq/Ord/Hash over the pool of clean values from all construction paths",
    json!({"builds_attempted": builds.len(), "pool": np, "paths_present": paths_present, "pairs": np * np, "triples_over_cmp_matrix": np * np * np, "intransitive": intransitive}),
  );
  // collect the conversion probes
  let mut never = 0;
  for h in probes {
    let (s, via, r) = h.join().expect("probe thread");
    let case = Case::IntoString { s: s.clone(), via };
    ctx.eval1();
    ctx.add_states(1);
    ctx.add_transitions(1);
    ctx.add_traces(1);
    ctx.distinct(&(6u8, &s, via));
    if matches!(r, Probe::NeverReturned(_)) {
      never += 1;
    }
    ctx.outcome(judge_probe(ctx, &s, via, r));
    ctx.sample("into_string probes", &case);
  }
  ctx.part("owning String conversions (child-process probes)", json!({"probes": probe_inputs.len(), "never_returned": never, "cpu_budget_s": PROBE_CPU_S}));
  ctx.bound("grid", json!({"schemes": schemes.len(), "methods": methods.len(), "networks": nets.len(), "tags": tags.len(), "suffixes": suffixes.len(), "prefixes": prefixes.len()}));
  ctx.bound("network_name_alphabets", json!({"narrow": net_sigma, "narrow_max_len": 7, "wide": wide, "wide_max_len": ctx.by_tier(4, 6)}));
  ctx.bound("leading_segments", json!({"alphabet": seg_sigma.len(), "max_depth": seg_depth, "tags": seg_tags.len()}));
  ctx.bound("character_table", table.len());
  ctx.bound("tag_pair_substitutions", json!({"positions": pair_positions.len(), "alphabet": pair_subs}));
  ctx.bound("constructor_network_names", names.len());
  ctx.bound("constructor_tags", tags_c.len());
}

fn main() {
  if let Ok(arg) = std::env::var("C17_PROBE") {
    return probe_child_main(&arg);
  }
  vx::run_main::<Case, _, _>("C17", Level::ModelChecking, generate, eval)
}
