//! E2 — explicit-state search with stateright 0.31.
//!
//! The model's transition function calls the real implementation; states are fingerprinted by a
//! canonical form of the REAL object (see DESIGN §1.2). Discrepancies are not stateright
//! "discoveries" (the checker would stop at the first one): `next_state` records them in a
//! [`Collector`] and returns `None` for the violating successor, so the search goes on everywhere
//! else. `run` executes the search twice — 16 threads and 1 thread — and compares the unique-state
//! counts (determinism check of the harness).

use serde::Serialize;
use serde_json::{json, Value};
use stateright::{Checker, Model};
use std::collections::BTreeMap;
use std::hash::Hash;
use std::sync::atomic::{AtomicU64, Ordering};
use std::sync::{Arc, Mutex};

#[derive(Default)]
pub struct Collector {
  viol: Mutex<BTreeMap<String, (String, Value, u64)>>,
  outcomes: Mutex<BTreeMap<String, u64>>,
  pub oracle_evals: AtomicU64,
  samples: Mutex<Vec<Value>>,
}

impl Collector {
  pub fn new() -> Arc<Collector> {
    Arc::new(Collector::default())
  }
  pub fn violation<C: Serialize>(&self, key: &str, what: &str, case: &C) {
    let case = serde_json::to_value(case).unwrap_or(Value::Null);
    let size = |v: &Value| {
      let s = v.to_string();
      (s.len(), s)
    };
    let mut m = self.viol.lock().unwrap();
    match m.get_mut(key) {
      Some(v) => {
        v.2 += 1;
        if size(&case) < size(&v.1) {
          v.1 = case;
          v.0 = what.to_string();
        }
      }
      None => {
        m.insert(key.to_string(), (what.to_string(), case, 1));
      }
    }
  }
  pub fn outcome(&self, label: &str) {
    *self.outcomes.lock().unwrap().entry(label.to_string()).or_insert(0) += 1;
  }
  pub fn sample<C: Serialize>(&self, case: &C) {
    let mut s = self.samples.lock().unwrap();
    if s.len() < 4 {
      s.push(serde_json::to_value(case).unwrap_or(Value::Null));
    }
  }
  pub fn eval1(&self) {
    self.oracle_evals.fetch_add(1, Ordering::Relaxed);
  }
  /// Move everything into the run context. The violation `case`s must be replayable by the bin's `eval`.
  pub fn drain_into(&self, ctx: &crate::Ctx, part: &str) {
    for (k, (what, case, n)) in std::mem::take(&mut *self.viol.lock().unwrap()) {
      for _ in 0..n.min(1) {
        ctx.violation(&k, &what, &case);
      }
    }
    ctx.outcomes_merge(&std::mem::take(&mut *self.outcomes.lock().unwrap()));
    for s in std::mem::take(&mut *self.samples.lock().unwrap()) {
      ctx.sample(part, &s);
    }
  }
}

#[derive(Debug, Clone)]
pub struct SrStats {
  pub unique: u64,
  pub generated: u64,
  pub max_depth: u64,
  pub closure: bool,
}

/// Run `make()`'s model to closure (or to `max_depth`) with BFS, 16 threads then 1 thread.
/// `make` receives the collector to embed in the model; only the first run's collector is drained
/// into the context (the second run is the determinism check).
pub fn run<M, F>(ctx: &crate::Ctx, part: &str, max_depth: Option<usize>, make: F) -> SrStats
where
  M: Model + Send + Sync + 'static,
  M::State: Hash + Send + Sync + Clone + std::fmt::Debug + PartialEq + 'static,
  M::Action: Send + Sync + Clone + std::fmt::Debug + PartialEq + 'static,
  F: Fn(Arc<Collector>) -> M,
{
  run_with(ctx, part, max_depth, 1, make)
}
/// BFS to closure with the frontier expanded by all cores (level-synchronous, rayon), for models with FEW states and
/// EXPENSIVE transitions: stateright hands states to its workers in blocks of up to 1 500, so a search with a few
/// hundred states runs on one core there. Same `Model` (init_states / actions / next_state), same notion of state
/// identity (`Hash` of the state). The second run is stateright's own single-threaded BFS: the two engines must agree
/// on the number of unique states and on the violation keys.
pub fn run_par<M, F>(ctx: &crate::Ctx, part: &str, make: F) -> SrStats
where
  M: Model + Send + Sync + 'static,
  M::State: Hash + Send + Sync + Clone + std::fmt::Debug + PartialEq + 'static,
  M::Action: Send + Sync + Clone + std::fmt::Debug + PartialEq + 'static,
  F: Fn(Arc<Collector>) -> M,
{
  use rayon::prelude::*;
  use std::hash::Hasher;
  let fp = |s: &M::State| -> u64 {
    let mut h = std::collections::hash_map::DefaultHasher::new();
    s.hash(&mut h);
    h.finish()
  };
  let t0 = std::time::Instant::now();
  let col = Collector::new();
  let model = make(col.clone());
  let mut seen: std::collections::HashSet<u64> = std::collections::HashSet::new();
  let mut frontier: Vec<M::State> = Vec::new();
  for s in model.init_states() {
    if seen.insert(fp(&s)) {
      frontier.push(s);
    }
  }
  let mut generated = frontier.len() as u64;
  let mut depth = 0u64;
  while !frontier.is_empty() {
    let pairs: Vec<(usize, M::Action)> = frontier
      .iter()
      .enumerate()
      .flat_map(|(i, s)| {
        let mut acts = Vec::new();
        model.actions(s, &mut acts);
        acts.into_iter().map(move |a| (i, a))
      })
      .collect();
    let nexts: Vec<M::State> = pairs.into_par_iter().filter_map(|(i, a)| model.next_state(&frontier[i], a)).collect();
    generated += nexts.len() as u64;
    let mut new = Vec::new();
    for n in nexts {
      if seen.insert(fp(&n)) {
        new.push(n);
      }
    }
    frontier = new;
    depth += 1;
  }
  let a = SrStats { unique: seen.len() as u64, generated, max_depth: depth, closure: true };
  let first_s = t0.elapsed().as_secs_f64();
  // cross-check: stateright's BFS, one thread
  let t1 = std::time::Instant::now();
  let col_b = Collector::new();
  let c = make(col_b.clone()).checker().threads(1).spawn_bfs().join();
  let b_unique = c.unique_state_count() as u64;
  let second_s = t1.elapsed().as_secs_f64();
  ctx.require(a.unique == b_unique && c.is_done(), &format!("{part}: own parallel BFS found {} unique states, stateright's BFS {}", a.unique, b_unique));
  let ka: Vec<String> = col.viol.lock().unwrap().keys().cloned().collect();
  let kb: Vec<String> = col_b.viol.lock().unwrap().keys().cloned().collect();
  ctx.require(ka == kb, &format!("{part}: violation keys differ between the two engines: {ka:?} vs {kb:?}"));
  col.drain_into(ctx, part);
  ctx.add_states(a.unique);
  ctx.add_transitions(a.generated);
  ctx.add_traces(a.generated);
  ctx.add_evals(col.oracle_evals.load(Ordering::Relaxed).max(a.generated));
  ctx.part(
    part,
    json!({"engine":"E2 level-synchronous parallel BFS (own, rayon) cross-checked by stateright BFS (1 thread)", "unique_states": a.unique,
      "generated_states(transitions+init)": a.generated, "levels": a.max_depth, "closure": true, "depth_target": null,
      "second_run_1_thread_unique_states": b_unique, "stateright_generated": c.state_count(), "wall_s": [(first_s * 10.0).round() / 10.0, (second_s * 10.0).round() / 10.0]}),
  );
  a
}
/// As `run`, the second (determinism) run with `second_threads` workers instead of one — for searches whose
/// transitions are expensive (every transition replays a history on a fresh real object).
pub fn run_with<M, F>(ctx: &crate::Ctx, part: &str, max_depth: Option<usize>, second_threads: usize, make: F) -> SrStats
where
  M: Model + Send + Sync + 'static,
  M::State: Hash + Send + Sync + Clone + std::fmt::Debug + PartialEq + 'static,
  M::Action: Send + Sync + Clone + std::fmt::Debug + PartialEq + 'static,
  F: Fn(Arc<Collector>) -> M,
{
  let one = |threads: usize| -> (SrStats, Arc<Collector>) {
    let col = Collector::new();
    let mut b = make(col.clone()).checker().threads(threads);
    if let Some(d) = max_depth {
      b = b.target_max_depth(d);
    }
    let c = b.spawn_bfs().join();
    let st = SrStats {
      unique: c.unique_state_count() as u64,
      generated: c.state_count() as u64,
      max_depth: c.max_depth() as u64,
      closure: c.is_done() && max_depth.map(|d| c.max_depth() < d).unwrap_or(true),
    };
    (st, col)
  };
  let threads = std::thread::available_parallelism().map(|n| n.get()).unwrap_or(8);
  let t0 = std::time::Instant::now();
  let (a, col) = one(threads);
  let first_s = t0.elapsed().as_secs_f64();
  let t1 = std::time::Instant::now();
  let (b, col_b) = one(second_threads.max(1));
  let second_s = t1.elapsed().as_secs_f64();
  // With a depth target the set of visited states can depend on worker timing unless depth is part
  // of the fingerprint (the bins do that); closure runs must agree exactly.
  ctx.require(
    a.unique == b.unique,
    &format!("{part}: unique-state count differs between {threads}-thread and {second_threads}-thread runs: {} vs {}", a.unique, b.unique),
  );
  let ka: Vec<String> = col.viol.lock().unwrap().keys().cloned().collect();
  let kb: Vec<String> = col_b.viol.lock().unwrap().keys().cloned().collect();
  ctx.require(ka == kb, &format!("{part}: violation keys differ between runs: {ka:?} vs {kb:?}"));
  col.drain_into(ctx, part);
  ctx.add_states(a.unique);
  ctx.add_transitions(a.generated);
  ctx.add_traces(a.generated);
  ctx.add_evals(col.oracle_evals.load(Ordering::Relaxed).max(a.generated));
  if !a.closure {
    ctx.cap_hit(&format!("{part}: depth target {max_depth:?} reached before the frontier emptied"));
  }
  ctx.part(
    part,
    json!({"engine":"E2 stateright BFS","unique_states": a.unique, "generated_states(transitions+init)": a.generated,
      "max_depth": a.max_depth, "closure": a.closure, "depth_target": max_depth,
      "second_run_1_thread_unique_states": b.unique, "second_run_threads": second_threads.max(1),
      "wall_s": [(first_s * 10.0).round() / 10.0, (second_s * 10.0).round() / 10.0]}),
  );
  a
}
