//! Fixtures shared by the checks: owned clock, fixed-seed keys, hand-assembled JWS tokens, documents.

use identity_core::common::Timestamp;
use identity_jose::jwk::{EcCurve, EdCurve, Jwk, JwkParamsEc, JwkParamsOkp};
use identity_jose::jws::{JwsVerifier, SignatureVerificationError, SignatureVerificationErrorKind, VerificationInput};
use identity_jose::jwu::encode_b64;
use std::cell::Cell;

// ---------------------------------------------------------------- clock
/// The fixed "now" of every check unless overridden per thread: 2023-11-14T22:13:20Z.
pub const NOW: i64 = 1_700_000_000;

thread_local! {
  static CLOCK: Cell<i64> = const { Cell::new(NOW) };
}

fn harness_now() -> Timestamp {
  Timestamp::from_unix(CLOCK.with(|c| c.get())).expect("harness clock in range")
}
identity_core::register_custom_now_utc!(harness_now);

/// Referenced from `run_main` so that the clock symbol is always linked.
pub fn install_clock() {
  let _ = harness_now();
}
/// Set this thread's clock.
pub fn set_now(unix: i64) {
  CLOCK.with(|c| c.set(unix));
}
pub fn ts(unix: i64) -> Timestamp {
  Timestamp::from_unix(unix).expect("ts in range")
}

// ---------------------------------------------------------------- keys
pub fn b64(data: impl AsRef<[u8]>) -> String {
  encode_b64(data)
}

#[derive(Clone)]
pub struct EdKey {
  pub seed: u8,
  pub public: Jwk,
  pub private: Jwk,
}

fn ed_secret(seed: u8) -> crypto::signatures::ed25519::SecretKey {
  let mut bytes = [0u8; 32];
  for (i, b) in bytes.iter_mut().enumerate() {
    *b = seed.wrapping_mul(31).wrapping_add(i as u8).wrapping_add(7);
  }
  crypto::signatures::ed25519::SecretKey::from_bytes(&bytes)
}

impl EdKey {
  /// Deterministic Ed25519 key number `seed`; `alg` is NOT set on the JWK (use `with_alg`).
  pub fn new(seed: u8) -> EdKey {
    let sk = ed_secret(seed);
    let pk = sk.public_key();
    let mut params = JwkParamsOkp::new();
    params.crv = EdCurve::Ed25519.name().to_string();
    params.x = b64(pk.as_slice());
    let public = Jwk::from_params(params.clone());
    params.d = Some(b64(sk.to_bytes().as_slice()));
    let private = Jwk::from_params(params);
    EdKey { seed, public, private }
  }
  pub fn sign(&self, msg: &[u8]) -> Vec<u8> {
    ed_secret(self.seed).sign(msg).to_bytes().to_vec()
  }
  pub fn public_with_alg(&self, alg: &str) -> Jwk {
    let mut j = self.public.clone();
    j.set_alg(alg);
    j
  }
  pub fn private_with_alg(&self, alg: &str) -> Jwk {
    let mut j = self.private.clone();
    j.set_alg(alg);
    j
  }
}

#[derive(Clone)]
pub struct P256Key {
  pub public: Jwk,
  sk: p256::ecdsa::SigningKey,
}
impl P256Key {
  pub fn new(seed: u8) -> P256Key {
    let mut bytes = [0u8; 32];
    for (i, b) in bytes.iter_mut().enumerate() {
      *b = seed.wrapping_mul(17).wrapping_add(i as u8).wrapping_add(3);
    }
    let sk = p256::ecdsa::SigningKey::from_slice(&bytes).expect("p256 key");
    let pt = sk.verifying_key().to_encoded_point(false);
    let mut params = JwkParamsEc::new();
    params.crv = EcCurve::P256.name().to_string();
    params.x = b64(pt.x().unwrap());
    params.y = b64(pt.y().unwrap());
    P256Key { public: Jwk::from_params(params), sk }
  }
  pub fn sign(&self, msg: &[u8]) -> Vec<u8> {
    use p256::ecdsa::signature::Signer;
    let sig: p256::ecdsa::Signature = self.sk.sign(msg);
    sig.to_bytes().to_vec()
  }
}

#[derive(Clone)]
pub struct K256Key {
  pub public: Jwk,
  sk: k256::ecdsa::SigningKey,
}
impl K256Key {
  pub fn new(seed: u8) -> K256Key {
    let mut bytes = [0u8; 32];
    for (i, b) in bytes.iter_mut().enumerate() {
      *b = seed.wrapping_mul(13).wrapping_add(i as u8).wrapping_add(5);
    }
    let sk = k256::ecdsa::SigningKey::from_slice(&bytes).expect("k256 key");
    let pt = sk.verifying_key().to_encoded_point(false);
    let mut params = JwkParamsEc::new();
    params.crv = EcCurve::Secp256K1.name().to_string();
    params.x = b64(pt.x().unwrap());
    params.y = b64(pt.y().unwrap());
    K256Key { public: Jwk::from_params(params), sk }
  }
  pub fn sign(&self, msg: &[u8]) -> Vec<u8> {
    use k256::ecdsa::signature::Signer;
    let sig: k256::ecdsa::Signature = self.sk.sign(msg);
    sig.to_bytes().to_vec()
  }
}

// ---------------------------------------------------------------- verifiers
/// Accepts every signature (for checks that are about claims, not cryptography).
pub struct AlwaysOk;
impl JwsVerifier for AlwaysOk {
  fn verify(&self, _input: VerificationInput, _key: &Jwk) -> Result<(), SignatureVerificationError> {
    Ok(())
  }
}

/// The real verifiers behind one `JwsVerifier`: EdDSA -> Ed25519Verifier, ES256/ES256K -> EcDSAJwsVerifier.
pub struct RealVerifier;
impl JwsVerifier for RealVerifier {
  fn verify(&self, input: VerificationInput, key: &Jwk) -> Result<(), SignatureVerificationError> {
    use identity_jose::jws::JwsAlgorithm;
    match input.alg {
      JwsAlgorithm::EdDSA => identity_eddsa_verifier::EdDSAJwsVerifier::default().verify(input, key),
      JwsAlgorithm::ES256 | JwsAlgorithm::ES256K => identity_ecdsa_verifier::EcDSAJwsVerifier::default().verify(input, key),
      _ => Err(SignatureVerificationErrorKind::UnsupportedAlg.into()),
    }
  }
}

// ---------------------------------------------------------------- tokens
/// Compact JWS assembled byte-for-byte by the harness: b64(header_json).b64(payload).b64(sig) with
/// the signature over exactly `b64(header) '.' b64(payload)`.
pub fn compact_ed(header_json: &str, payload: &[u8], key: &EdKey) -> String {
  let h = b64(header_json.as_bytes());
  let p = b64(payload);
  let input = format!("{h}.{p}");
  let sig = key.sign(input.as_bytes());
  format!("{input}.{}", b64(sig))
}

// ---------------------------------------------------------------- codecs
pub type GzEnc = flate2::write::GzEncoder<Vec<u8>>;
pub fn gz_encoder() -> GzEnc {
  flate2::write::GzEncoder::new(Vec::new(), flate2::Compression::default())
}
pub type ZlibEnc = flate2::write::ZlibEncoder<Vec<u8>>;
pub fn zlib_encoder() -> ZlibEnc {
  flate2::write::ZlibEncoder::new(Vec::new(), flate2::Compression::default())
}
