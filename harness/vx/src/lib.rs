//! vx — engine library of the identity.rs model-checking harness.
//!
//! * [`ctx`]    — per-run context: tier/seed/replay arguments, violation collection keyed by
//!               canonical finding keys, known-findings matching, evidence + replay files.
//! * [`choice`] — E1: stateless deviation-bounded DFS over choice sequences (real code re-executed
//!               once per sequence).
//! * [`sr`]     — E2: helpers around stateright (explicit-state BFS to closure, run twice with
//!               16 / 1 threads and compared).
//! * [`gate`]   — E3b: exhaustive gate-opening executor for futures.
//! * [`guard`]  — catch_unwind wrapper recording panic message and location.
//! * [`fx`]     — fixtures: fixed-seed keys, JWS assembly, documents.

pub mod choice;
pub mod ctx;
pub mod fx;
pub mod gate;
pub mod guard;
pub mod sr;

pub use ctx::{run_main, Ctx, Level, Tier};
pub use guard::{guard, Panicked};
pub use rayon;
pub use serde_json::{json, Value};
pub use stateright;
