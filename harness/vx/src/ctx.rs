//! Run context shared by every check binary.
//!
//! A check binary is `fn main() { vx::run_main::<Case>(PROP, LEVEL, generate, eval) }` where
//! `generate(&Ctx)` enumerates the bounded space and calls `eval(&Ctx, &Case)` on every case, and
//! `eval` runs the real code + oracle for ONE case, reporting through `ctx.violation(key, what, case)`.
//! `--replay <file>` deserialises the case stored in a replay artefact and runs `eval` on it (twice,
//! comparing), without any explorer.

use serde::de::DeserializeOwned;
use serde::Serialize;
use serde_json::{json, Map, Value};
use std::collections::hash_map::DefaultHasher;
use std::collections::{BTreeMap, HashSet};
use std::hash::{Hash, Hasher};
use std::path::PathBuf;
use std::sync::atomic::{AtomicBool, AtomicU64, Ordering};
use std::sync::Mutex;
use std::time::Instant;

#[derive(Clone, Copy, PartialEq, Eq, Debug)]
pub enum Tier {
  Quick,
  Thorough,
}

#[derive(Clone, Copy, PartialEq, Eq, Debug)]
pub enum Level {
  ModelChecking,
  FaultEnumeration,
}

impl Level {
  fn as_str(&self) -> &'static str {
    match self {
      Level::ModelChecking => "model_checking",
      Level::FaultEnumeration => "fault_enumeration",
    }
  }
}

#[derive(Clone, Debug)]
pub struct Viol {
  pub key: String,
  pub what: String,
  pub case: Value,
  pub count: u64,
}

#[derive(Clone, Debug)]
struct Known {
  key: String,
  what: String,
  status: String,
}

pub struct Ctx {
  pub prop: String,
  pub tier: Tier,
  pub seed: u64,
  pub level: Level,
  start: Instant,
  root: PathBuf,
  known: Vec<Known>,
  viol: Mutex<BTreeMap<String, Viol>>,
  outcomes: Mutex<BTreeMap<String, u64>>,
  samples: Mutex<Vec<Value>>,
  parts: Mutex<Vec<Value>>,
  caps: Mutex<Vec<String>>,
  bounds: Mutex<Map<String, Value>>,
  assumptions: Mutex<Vec<String>>,
  machinery: Mutex<Vec<String>>,
  rule: Mutex<String>,
  distinct: Mutex<HashSet<u64>>,
  pub evals: AtomicU64,
  pub states: AtomicU64,
  pub transitions: AtomicU64,
  pub traces: AtomicU64,
  not_exhaustive: AtomicBool,
  quiet: bool,
}

fn parse_args() -> (Tier, u64, Option<PathBuf>) {
  let mut tier = match std::env::var("VERIF_TIER").ok().as_deref() {
    Some("thorough") => Tier::Thorough,
    _ => Tier::Quick,
  };
  let seed = std::env::var("VERIF_SEED").ok().and_then(|s| s.parse().ok()).unwrap_or(0u64);
  let mut replay = None;
  let args: Vec<String> = std::env::args().collect();
  let mut i = 1;
  while i < args.len() {
    match args[i].as_str() {
      "--tier" => {
        i += 1;
        tier = match args.get(i).map(|s| s.as_str()) {
          Some("quick") => Tier::Quick,
          Some("thorough") => Tier::Thorough,
          other => machinery_exit(&format!("bad --tier {:?}", other)),
        };
      }
      "--replay" => {
        i += 1;
        replay = Some(PathBuf::from(args.get(i).cloned().unwrap_or_else(|| machinery_exit("--replay needs a path"))));
      }
      other => machinery_exit(&format!("unknown argument {other}")),
    }
    i += 1;
  }
  (tier, seed, replay)
}

pub fn machinery_exit(msg: &str) -> ! {
  eprintln!("MACHINERY-ERROR: {msg}");
  std::process::exit(2)
}

impl Ctx {
  fn new(prop: &str, level: Level, tier: Tier, seed: u64, quiet: bool) -> Ctx {
    let root = PathBuf::from(std::env::var("VERIF_ROOT").unwrap_or_else(|_| "/verif".into()));
    let mut known = Vec::new();
    let kf = root.join("known_findings.json");
    if let Ok(txt) = std::fs::read_to_string(&kf) {
      let v: Value = serde_json::from_str(&txt).unwrap_or_else(|e| machinery_exit(&format!("known_findings.json: {e}")));
      for e in v.get("findings").and_then(|f| f.as_array()).cloned().unwrap_or_default() {
        if e.get("property").and_then(|p| p.as_str()) == Some(prop) {
          known.push(Known {
            key: e.get("key").and_then(|k| k.as_str()).unwrap_or("").to_string(),
            what: e.get("what").and_then(|k| k.as_str()).unwrap_or("").to_string(),
            status: e.get("status").and_then(|k| k.as_str()).unwrap_or("").to_string(),
          });
        }
      }
    }
    Ctx {
      prop: prop.to_string(),
      tier,
      seed,
      level,
      start: Instant::now(),
      root,
      known,
      viol: Mutex::new(BTreeMap::new()),
      outcomes: Mutex::new(BTreeMap::new()),
      samples: Mutex::new(Vec::new()),
      parts: Mutex::new(Vec::new()),
      caps: Mutex::new(Vec::new()),
      bounds: Mutex::new(Map::new()),
      assumptions: Mutex::new(Vec::new()),
      machinery: Mutex::new(Vec::new()),
      rule: Mutex::new(String::new()),
      distinct: Mutex::new(HashSet::new()),
      evals: AtomicU64::new(0),
      states: AtomicU64::new(0),
      transitions: AtomicU64::new(0),
      traces: AtomicU64::new(0),
      not_exhaustive: AtomicBool::new(false),
      quiet,
    }
  }

  fn fork(&self) -> Ctx {
    Ctx::new(&self.prop, self.level, self.tier, self.seed, true)
  }

  pub fn quick(&self) -> bool {
    self.tier == Tier::Quick
  }
  pub fn thorough(&self) -> bool {
    self.tier == Tier::Thorough
  }
  /// `q` in the quick tier, `t` in the thorough tier.
  pub fn by_tier<T>(&self, q: T, t: T) -> T {
    if self.quick() {
      q
    } else {
      t
    }
  }
  pub fn elapsed_s(&self) -> f64 {
    self.start.elapsed().as_secs_f64()
  }

  /// Record a violation. `key` is the canonical identity of the defect (see DESIGN §1.6): one defect,
  /// one key. Only the first witness per key is kept (plus a count).
  pub fn violation<C: Serialize>(&self, key: &str, what: &str, case: &C) {
    // The witness kept per key is the smallest one (serialised length, then text), so that the
    // reported case does not depend on worker timing.
    let case = serde_json::to_value(case).unwrap_or(Value::Null);
    let size = |v: &Value| {
      let s = v.to_string();
      (s.len(), s)
    };
    let mut m = self.viol.lock().unwrap();
    match m.get_mut(key) {
      Some(v) => {
        v.count += 1;
        if size(&case) < size(&v.case) {
          v.case = case;
          v.what = what.to_string();
        }
      }
      None => {
        m.insert(key.to_string(), Viol { key: key.to_string(), what: what.to_string(), case, count: 1 });
      }
    }
  }
  pub fn violation_keys(&self) -> Vec<String> {
    self.viol.lock().unwrap().keys().cloned().collect()
  }

  /// Outcome histogram (vacuity guard): call once per case with a coarse label.
  pub fn outcome(&self, label: &str) {
    *self.outcomes.lock().unwrap().entry(label.to_string()).or_insert(0) += 1;
  }
  pub fn outcome_n(&self, label: &str, n: u64) {
    *self.outcomes.lock().unwrap().entry(label.to_string()).or_insert(0) += n;
  }
  /// Merge a locally accumulated histogram (use in hot loops instead of `outcome`).
  pub fn outcomes_merge(&self, local: &BTreeMap<String, u64>) {
    let mut m = self.outcomes.lock().unwrap();
    for (k, v) in local {
      *m.entry(k.clone()).or_insert(0) += *v;
    }
  }
  pub fn distinct_outcomes(&self) -> usize {
    self.outcomes.lock().unwrap().len()
  }
  /// A case that is non-trivial by the check's rule; `k` is its canonical identity.
  pub fn distinct<K: Hash>(&self, k: &K) {
    let mut h = DefaultHasher::new();
    k.hash(&mut h);
    self.distinct.lock().unwrap().insert(h.finish());
  }
  pub fn distinct_many(&self, hs: impl IntoIterator<Item = u64>) {
    self.distinct.lock().unwrap().extend(hs);
  }
  pub fn hash_of<K: Hash>(k: &K) -> u64 {
    let mut h = DefaultHasher::new();
    k.hash(&mut h);
    h.finish()
  }
  /// Keep an actual explored case as a sample (at most 4 per label are kept).
  pub fn sample<C: Serialize>(&self, label: &str, case: &C) {
    let mut s = self.samples.lock().unwrap();
    let n = s.iter().filter(|v| v.get("part").and_then(|p| p.as_str()) == Some(label)).count();
    if n < 4 {
      s.push(json!({"part": label, "case": serde_json::to_value(case).unwrap_or(Value::Null)}));
    }
  }
  pub fn eval1(&self) {
    self.evals.fetch_add(1, Ordering::Relaxed);
  }
  pub fn add_evals(&self, n: u64) {
    self.evals.fetch_add(n, Ordering::Relaxed);
  }
  pub fn add_states(&self, n: u64) {
    self.states.fetch_add(n, Ordering::Relaxed);
  }
  pub fn add_transitions(&self, n: u64) {
    self.transitions.fetch_add(n, Ordering::Relaxed);
  }
  pub fn add_traces(&self, n: u64) {
    self.traces.fetch_add(n, Ordering::Relaxed);
  }
  /// Coverage detail of one sub-check (goes to coverage.parts).
  pub fn part(&self, name: &str, detail: Value) {
    if !self.quiet {
      eprintln!("[{}] part {name}: {detail}", self.prop);
    }
    self.parts.lock().unwrap().push(json!({"name": name, "detail": detail}));
  }
  pub fn cap_hit(&self, what: &str) {
    self.not_exhaustive.store(true, Ordering::Relaxed);
    self.caps.lock().unwrap().push(what.to_string());
  }
  pub fn bound<V: Serialize>(&self, name: &str, v: V) {
    self.bounds.lock().unwrap().insert(name.to_string(), serde_json::to_value(v).unwrap());
  }
  pub fn assume(&self, what: &str) {
    self.assumptions.lock().unwrap().push(what.to_string());
  }
  pub fn rule(&self, what: &str) {
    *self.rule.lock().unwrap() = what.to_string();
  }
  /// Machinery self-check (vacuity guards, determinism): a failure is exit 2, never a verdict.
  pub fn require(&self, cond: bool, what: &str) {
    if !cond {
      self.machinery.lock().unwrap().push(what.to_string());
    }
  }

  fn known_status(&self, key: &str) -> Option<&Known> {
    self.known.iter().find(|k| k.status == "known" && k.key == key)
  }
}

/// The violation keys a whole run of this binary observes in a fresh process (own scratch root, nothing written to
/// the real evidence / replay directories).
fn whole_run_keys(ctx: &Ctx, tier: Tier) -> Vec<String> {
  let Ok(exe) = std::env::current_exe() else { return Vec::new() };
  let root = ctx.root.join("replays").join(".whole-run");
  let _ = std::fs::create_dir_all(&root);
  let _ = std::fs::copy(ctx.root.join("known_findings.json"), root.join("known_findings.json"));
  let out = std::process::Command::new(exe)
    .args(["--tier", if tier == Tier::Quick { "quick" } else { "thorough" }])
    .env("VX_WHOLE_RUN_CHILD", "1")
    .env("VERIF_ROOT", &root)
    .output();
  let _ = std::fs::remove_dir_all(&root);
  match out {
    Ok(o) => String::from_utf8_lossy(&o.stdout).lines().filter_map(|l| l.strip_prefix("OBSERVED-KEY: ").map(|k| k.to_string())).collect(),
    Err(_) => Vec::new(),
  }
}

fn replay_keys<C, E>(ctx: &Ctx, eval: &E, case: &Value) -> Result<Vec<String>, String>
where
  C: DeserializeOwned,
  E: Fn(&Ctx, &C),
{
  let c: C = serde_json::from_value(case.clone()).map_err(|e| format!("case does not deserialise: {e}"))?;
  let sub = ctx.fork();
  let r = std::panic::catch_unwind(std::panic::AssertUnwindSafe(|| eval(&sub, &c)));
  if r.is_err() {
    return Err("harness panicked while replaying".into());
  }
  Ok(sub.violation_keys())
}

/// Entry point of every check binary. Never returns.
pub fn run_main<C, G, E>(prop: &str, level: Level, generate: G, eval: E) -> !
where
  C: Serialize + DeserializeOwned,
  G: FnOnce(&Ctx),
  E: Fn(&Ctx, &C) + Sync,
{
  // anyhow captures a backtrace for every error value when RUST_BACKTRACE is set (behind a process-wide lock, which
  // serialises the worker threads); the checks create millions of error values.
  if std::env::var_os("RUST_LIB_BACKTRACE").is_none() {
    std::env::set_var("RUST_LIB_BACKTRACE", "0");
  }
  crate::guard::install_hook();
  crate::fx::install_clock();
  let (tier, seed, replay) = parse_args();
  let ctx = Ctx::new(prop, level, tier, seed, false);

  if let Some(path) = replay {
    let txt = std::fs::read_to_string(&path).unwrap_or_else(|e| machinery_exit(&format!("{}: {e}", path.display())));
    let v: Value = serde_json::from_str(&txt).unwrap_or_else(|e| machinery_exit(&format!("replay file: {e}")));
    let case = v.get("case").cloned().unwrap_or(Value::Null);
    let want = v.get("key").and_then(|k| k.as_str()).unwrap_or("").to_string();
    if v.get("whole_run").and_then(|w| w.as_bool()).unwrap_or(false) {
      let t = if v.get("tier").and_then(|t| t.as_str()) == Some("thorough") { Tier::Thorough } else { Tier::Quick };
      let keys = whole_run_keys(&ctx, t);
      println!("replay {} (whole run in a fresh process) -> violation keys {:?}", path.display(), keys);
      if keys.iter().any(|k| *k == want) {
        println!("VIOLATION property={} replay={}", prop, path.display());
        std::process::exit(1);
      }
      println!("replay: key {want:?} not reproduced on this tree");
      std::process::exit(0);
    }
    let a = replay_keys::<C, E>(&ctx, &eval, &case).unwrap_or_else(|e| machinery_exit(&e));
    let b = replay_keys::<C, E>(&ctx, &eval, &case).unwrap_or_else(|e| machinery_exit(&e));
    if a != b {
      machinery_exit(&format!("replay is not deterministic: {a:?} vs {b:?}"));
    }
    println!("replay {} -> violation keys {:?}", path.display(), a);
    if a.iter().any(|k| *k == want) {
      println!("VIOLATION property={} replay={}", prop, path.display());
      std::process::exit(1);
    }
    println!("replay: key {want:?} not reproduced on this tree");
    std::process::exit(0);
  }

  let gen_res = std::panic::catch_unwind(std::panic::AssertUnwindSafe(|| generate(&ctx)));
  if let Err(e) = gen_res {
    let msg = e.downcast_ref::<String>().cloned().or_else(|| e.downcast_ref::<&str>().map(|s| s.to_string())).unwrap_or_default();
    machinery_exit(&format!("harness panicked outside a guarded call: {msg} @ {:?}", crate::guard::last_location()));
  }

  // Classify violations.
  let viols: Vec<Viol> = ctx.viol.lock().unwrap().values().cloned().collect();
  let mut new_viols = Vec::new();
  let mut known_seen = Vec::new();
  for v in &viols {
    if let Some(k) = ctx.known_status(&v.key) {
      println!("KNOWN-FINDING: property={} {} [key={}] ({} cases)", prop, k.what, v.key, v.count);
      known_seen.push(json!({"key": v.key, "cases": v.count}));
    } else {
      new_viols.push(v.clone());
    }
  }
  // A whole-run re-execution in a fresh process (see below) only wants to know which keys this run observes.
  let child_rerun = std::env::var_os("VX_WHOLE_RUN_CHILD").is_some();
  if child_rerun {
    for v in &new_viols {
      println!("OBSERVED-KEY: {}", v.key);
    }
    std::process::exit(0);
  }
  // Every reported violation is replayed twice before it is believed.
  let replay_dir = ctx.root.join("replays");
  let mut exit_code = 0;
  let mut reported = Vec::new();
  let mut not_reproduced: Vec<(usize, Viol, String)> = Vec::new();
  for (i, v) in new_viols.iter().enumerate() {
    let a = replay_keys::<C, E>(&ctx, &eval, &v.case);
    let b = replay_keys::<C, E>(&ctx, &eval, &v.case);
    match (&a, &b) {
      (Ok(a), Ok(b)) if a == b && a.iter().any(|k| *k == v.key) => {}
      _ => {
        not_reproduced.push((i, v.clone(), format!("violation {} did not reproduce identically on replay: {a:?} / {b:?}", v.key)));
        continue;
      }
    }
    let _ = std::fs::create_dir_all(&replay_dir);
    let path = replay_dir.join(format!("{}-{}.json", prop, i));
    let art = json!({"property": prop, "key": v.key, "what": v.what, "cases_with_this_key": v.count, "case": v.case,
                     "replay_cmd": format!("./check {} --replay {}", prop, path.display())});
    std::fs::write(&path, serde_json::to_string_pretty(&art).unwrap()).unwrap_or_else(|e| machinery_exit(&format!("write replay: {e}")));
    println!("VIOLATION property={} replay={}", prop, path.display());
    println!("  key={}  what={}  cases={}", v.key, v.what, v.count);
    reported.push(json!({"key": v.key, "what": v.what, "cases": v.count, "replay": path.display().to_string()}));
    exit_code = 1;
  }

  // A violation that was observed in the run but does not show when its case is evaluated on its own depends on what
  // was evaluated before it (state the subject keeps between calls: a process-wide cache, a memo). The unit of replay is
  // then the whole run: it is executed once more in a FRESH process; a key that is observed there again is reported,
  // its artefact replays the whole run. A key that does not come back is a machinery matter (exit 2), never a verdict.
  if !not_reproduced.is_empty() {
    let again: Vec<String> = if exit_code == 0 { whole_run_keys(&ctx, tier) } else { Vec::new() };
    for (i, v, msg) in not_reproduced {
      if again.iter().any(|k| *k == v.key) {
        let _ = std::fs::create_dir_all(&replay_dir);
        let path = replay_dir.join(format!("{}-{}.json", prop, i));
        let art = json!({"property": prop, "key": v.key, "what": v.what, "cases_with_this_key": v.count, "case": v.case, "whole_run": true,
                         "note": "order-dependent: the case alone does not show the violation; observed in two whole runs (the second in a fresh process); the replay re-executes the whole run",
                         "tier": if tier == Tier::Quick { "quick" } else { "thorough" },
                         "replay_cmd": format!("./check {} --replay {}", prop, path.display())});
        std::fs::write(&path, serde_json::to_string_pretty(&art).unwrap()).unwrap_or_else(|e| machinery_exit(&format!("write replay: {e}")));
        println!("VIOLATION property={} replay={}", prop, path.display());
        println!("  key={}  what={}  cases={}  (order-dependent; whole-run replay)", v.key, v.what, v.count);
        reported.push(json!({"key": v.key, "what": v.what, "cases": v.count, "replay": path.display().to_string(), "whole_run": true}));
        exit_code = 1;
      } else if exit_code == 0 {
        ctx.machinery.lock().unwrap().push(msg);
      } else {
        ctx.machinery.lock().unwrap().push(msg);
      }
    }
  }

  // Evidence of a companion binary run just before this one (e.g. C15S: the Stronghold part of C15's
  // thorough tier) is merged in: its coverage becomes a part and its counts are added.
  if let Ok(paths) = std::env::var("VX_MERGE_EVIDENCE") {
    for path in paths.split(':').filter(|p| !p.is_empty()) {
      match std::fs::read_to_string(path).ok().and_then(|t| serde_json::from_str::<Value>(&t).ok()) {
        Some(v) => {
          let cov = v.get("coverage").cloned().unwrap_or(Value::Null);
          let n = |k: &str| cov.get(k).and_then(|x| x.as_u64()).unwrap_or(0);
          ctx.add_states(n("states"));
          ctx.add_transitions(n("transitions"));
          ctx.add_traces(n("traces_validated_against_impl"));
          ctx.add_evals(n("evaluations"));
          if cov.get("exhaustive").and_then(|b| b.as_bool()) == Some(false) {
            ctx.cap_hit(&format!("companion run {path} was not exhaustive"));
          }
          ctx.part(&format!("companion:{}", v.get("property_id").and_then(|p| p.as_str()).unwrap_or(path)), json!({"tier": v.get("tier"), "wall_s": v.get("wall_s"), "violations": v.get("violations"), "coverage": cov}));
        }
        None => ctx.machinery.lock().unwrap().push(format!("companion evidence {path} missing or unreadable")),
      }
    }
  }

  // Evidence.
  let outcomes = ctx.outcomes.lock().unwrap().clone();
  let distinct = ctx.distinct.lock().unwrap().len() as u64;
  let mut samples = ctx.samples.lock().unwrap().clone();
  if samples.is_empty() {
    ctx.machinery.lock().unwrap().push("no samples recorded".into());
    samples.push(json!("none"));
  }
  let evals = ctx.evals.load(Ordering::Relaxed);
  let states = ctx.states.load(Ordering::Relaxed);
  let transitions = ctx.transitions.load(Ordering::Relaxed);
  let traces = ctx.traces.load(Ordering::Relaxed);
  if evals == 0 || states == 0 || transitions == 0 {
    ctx.machinery.lock().unwrap().push(format!("vacuous run: evaluations={evals} states={states} transitions={transitions}"));
  }
  if outcomes.len() < 2 {
    ctx.machinery.lock().unwrap().push(format!("vacuous run: {} distinct outcomes", outcomes.len()));
  }
  if distinct < 2 {
    ctx.machinery.lock().unwrap().push(format!("vacuous run: {distinct} distinct non-trivial cases"));
  }
  let diverged = crate::choice::DIVERGENCES.load(Ordering::SeqCst);
  if diverged > 0 {
    ctx.machinery.lock().unwrap().push(format!(
      "{diverged} replay divergence(s): the explored body is not deterministic under the owned choices (first: {}); nothing observed in a diverged execution is reported unless it reproduces identically on its own",
      crate::choice::FIRST_DIVERGENCE.lock().unwrap().clone().unwrap_or_default()
    ));
  }
  let caps = ctx.caps.lock().unwrap().clone();
  let machinery = ctx.machinery.lock().unwrap().clone();
  let coverage = json!({
    "states": states,
    "transitions": transitions,
    "traces_validated_against_impl": traces,
    "evaluations": evals,
    "distinct_nontrivial": distinct,
    "rule": ctx.rule.lock().unwrap().clone(),
    "samples": samples,
    "exhaustive": !ctx.not_exhaustive.load(Ordering::Relaxed),
    "bounds": Value::Object(ctx.bounds.lock().unwrap().clone()),
    "outcome_histogram": outcomes,
    "caps_hit": caps,
    "parts": ctx.parts.lock().unwrap().clone(),
    "known_findings_seen": known_seen,
    "violations_reported": reported,
    "machinery_errors": machinery,
  });
  let ev = json!({
    "property_id": prop,
    "tier": if tier == Tier::Quick { "quick" } else { "thorough" },
    "seed": seed,
    "level": level.as_str(),
    "coverage": coverage,
    "assumptions": ctx.assumptions.lock().unwrap().clone(),
    "wall_s": ctx.elapsed_s(),
    "violations": new_viols.len(),
  });
  let evdir = ctx.root.join("evidence");
  let _ = std::fs::create_dir_all(&evdir);
  std::fs::write(evdir.join(format!("{prop}.json")), serde_json::to_string_pretty(&ev).unwrap())
    .unwrap_or_else(|e| machinery_exit(&format!("write evidence: {e}")));
  println!(
    "[{prop}] tier={:?} states={states} transitions={transitions} executions={traces} evaluations={evals} distinct_nontrivial={distinct} outcomes={} violations={} known={} wall={:.1}s",
    tier,
    ev["coverage"]["outcome_histogram"].as_object().map(|o| o.len()).unwrap_or(0),
    new_viols.len(),
    viols.len() - new_viols.len(),
    ctx.elapsed_s()
  );
  if !machinery.is_empty() {
    for m in &machinery {
      eprintln!("MACHINERY-ERROR: {m}");
    }
    if exit_code == 0 {
      exit_code = 2;
    }
  }
  std::process::exit(exit_code)
}
