//! E3b — exhaustive gate-opening executor for futures.
//!
//! Harness handlers `await` [`Gate`]s, which stay `Pending` until the explorer opens them. The root
//! future is polled on the current thread; whenever it returns `Pending`, the set of registered,
//! still-closed gates (sorted by name, so the order is independent of hash-map iteration) is one
//! choice point of the E1 explorer. Opening a gate wakes the waker stored by its `poll`, which is
//! what `FuturesUnordered` needs in order to re-poll that child. Enumerating all choices enumerates
//! every completion order / interleaving of the concurrently polled futures.

use crate::choice::Chooser;
use std::collections::{BTreeMap, BTreeSet};
use std::future::Future;
use std::pin::Pin;
use std::sync::{Arc, Mutex};
use std::task::{Context, Poll, Wake, Waker};

#[derive(Default)]
struct Inner {
  open: BTreeSet<String>,
  waiting: BTreeMap<String, Vec<Waker>>,
  opened_order: Vec<String>,
}

#[derive(Clone, Default)]
pub struct Gates(Arc<Mutex<Inner>>);

pub struct Gate {
  name: String,
  gates: Gates,
}

impl Gates {
  pub fn new() -> Gates {
    Gates::default()
  }
  pub fn gate(&self, name: impl Into<String>) -> Gate {
    Gate { name: name.into(), gates: self.clone() }
  }
  fn closed_waiting(&self) -> Vec<String> {
    let g = self.0.lock().unwrap();
    g.waiting.keys().filter(|k| !g.open.contains(*k)).cloned().collect()
  }
  fn open(&self, name: &str) {
    let wakers = {
      let mut g = self.0.lock().unwrap();
      g.open.insert(name.to_string());
      g.opened_order.push(name.to_string());
      g.waiting.remove(name).unwrap_or_default()
    };
    for w in wakers {
      w.wake();
    }
  }
  /// The order in which gates were opened in this execution (= the schedule).
  pub fn schedule(&self) -> Vec<String> {
    self.0.lock().unwrap().opened_order.clone()
  }
}

impl Future for Gate {
  type Output = ();
  fn poll(self: Pin<&mut Self>, cx: &mut Context<'_>) -> Poll<()> {
    let mut g = self.gates.0.lock().unwrap();
    if g.open.contains(&self.name) {
      Poll::Ready(())
    } else {
      g.waiting.entry(self.name.clone()).or_default().push(cx.waker().clone());
      Poll::Pending
    }
  }
}

struct CountWaker(std::sync::atomic::AtomicU64);
impl Wake for CountWaker {
  fn wake(self: Arc<Self>) {
    self.0.fetch_add(1, std::sync::atomic::Ordering::SeqCst);
  }
}

#[derive(Debug)]
pub enum GateRun<T> {
  Done(T),
  /// The root is pending and no closed gate is registered: nothing can make progress.
  Deadlock,
}

/// Drive `fut` to completion, asking `ch` which closed gate to open whenever the root is pending.
pub fn run_with_gates<F: Future>(fut: F, gates: &Gates, ch: &mut Chooser) -> GateRun<F::Output> {
  let mut fut = Box::pin(fut);
  let cw = Arc::new(CountWaker(Default::default()));
  let waker = Waker::from(cw.clone());
  let mut cx = Context::from_waker(&waker);
  let mut polls = 0u32;
  loop {
    polls += 1;
    if let Poll::Ready(v) = fut.as_mut().poll(&mut cx) {
      return GateRun::Done(v);
    }
    let waiting = gates.closed_waiting();
    if waiting.is_empty() {
      return GateRun::Deadlock;
    }
    let i = ch.choose("open-gate", waiting.len());
    gates.open(&waiting[i]);
    if polls > 10_000 {
      eprintln!("MACHINERY-ERROR: gate executor horizon exceeded");
      std::process::exit(2);
    }
  }
}

/// Poll a future that needs no gate to completion (plain `block_on` for the sequential store APIs).
pub fn block_on<F: Future>(fut: F) -> F::Output {
  futures::executor::block_on(fut)
}
