//! `guard(|| subject())` — run the subject under `catch_unwind`, returning the panic message and
//! source location if it unwinds. A process-wide panic hook stores (message, location) in a
//! thread-local and stays silent, so millions of guarded calls do not flood stderr.

use std::cell::RefCell;
use std::panic::{catch_unwind, AssertUnwindSafe};
use std::sync::Once;

#[derive(Clone, Debug)]
pub struct Panicked {
  pub msg: String,
  /// `file:line` with the /repo or cargo-registry prefix stripped.
  pub loc: String,
}

impl Panicked {
  /// Canonical finding key component: file (no line: unrelated edits move lines) + message with
  /// digits normalised, truncated.
  pub fn key(&self) -> String {
    let file = self.loc.rsplit_once(':').map(|(f, _)| f).unwrap_or(&self.loc);
    let mut m: String = self.msg.chars().map(|c| if c.is_ascii_digit() { '#' } else { c }).collect();
    while m.contains("##") {
      m = m.replace("##", "#");
    }
    let m: String = m.chars().take(48).collect();
    format!("panic@{file}:{m}")
  }
}

thread_local! {
  static LAST: RefCell<Option<Panicked>> = const { RefCell::new(None) };
}

static INSTALL: Once = Once::new();

fn strip(path: &str) -> String {
  if let Some(rest) = path.strip_prefix("/repo/") {
    return rest.to_string();
  }
  // a scratch worktree of the repository (mutant runs): same key as for /repo itself
  if !path.contains("/registry/src/") {
    if let Some(i) = path.find("/identity_") {
      return path[i + 1..].to_string();
    }
  }
  if let Some(i) = path.find("/registry/src/") {
    let rest = &path[i + "/registry/src/".len()..];
    if let Some(j) = rest.find('/') {
      return format!("crates.io/{}", &rest[j + 1..]);
    }
  }
  if let Some(i) = path.find("/library/") {
    return format!("rust{}", &path[i..]);
  }
  path.to_string()
}

pub fn install_hook() {
  INSTALL.call_once(|| {
    std::panic::set_hook(Box::new(|info| {
      let msg = info
        .payload()
        .downcast_ref::<String>()
        .cloned()
        .or_else(|| info.payload().downcast_ref::<&str>().map(|s| s.to_string()))
        .unwrap_or_else(|| "<non-string panic>".into());
      let loc = info.location().map(|l| format!("{}:{}", strip(l.file()), l.line())).unwrap_or_else(|| "?".into());
      if std::env::var_os("VX_PANIC_TRACE").is_some() {
        eprintln!("panic: {msg} @ {loc}");
      }
      LAST.with(|l| *l.borrow_mut() = Some(Panicked { msg, loc }));
    }));
  });
}

pub fn last_location() -> Option<Panicked> {
  LAST.with(|l| l.borrow().clone())
}

/// Run `f`; `Err(Panicked)` if it unwound.
pub fn guard<T>(f: impl FnOnce() -> T) -> Result<T, Panicked> {
  install_hook();
  match catch_unwind(AssertUnwindSafe(f)) {
    Ok(v) => Ok(v),
    Err(_) => Err(LAST.with(|l| l.borrow_mut().take()).unwrap_or(Panicked { msg: "?".into(), loc: "?".into() })),
  }
}
