//! E1 — stateless, deviation-bounded DFS over choice sequences.
//!
//! The body asks a [`Chooser`] for every decision. Alternative 0 is the benign default; the number of
//! non-zero choices of a sequence is its deviation count. `explore(bound, body)` runs the body once per
//! choice sequence with at most `bound` deviations (`None` = the whole tree), discovering choice
//! points dynamically: the prefix is replayed (an out-of-range choice while replaying is a hard
//! machinery error), every later point takes 0, and every alternative at every point after the prefix
//! is spawned as a child. Subtrees are distributed over the rayon pool.

use std::sync::atomic::{AtomicU64, Ordering};

/// Replay divergences met so far (the body took another number of alternatives at a point than the prefix records):
/// the explored body is not deterministic there. Read by the context when the run ends.
pub static DIVERGENCES: std::sync::atomic::AtomicU64 = std::sync::atomic::AtomicU64::new(0);
pub static FIRST_DIVERGENCE: std::sync::Mutex<Option<String>> = std::sync::Mutex::new(None);
fn note_divergence(msg: String) {
  if DIVERGENCES.fetch_add(1, std::sync::atomic::Ordering::SeqCst) == 0 {
    eprintln!("MACHINERY-ERROR: {msg}");
    *FIRST_DIVERGENCE.lock().unwrap() = Some(msg);
  }
}

pub struct Chooser<'a> {
  prefix: &'a [u32],
  trace: Vec<(u32, u32)>,
  labels: Vec<&'static str>,
}

impl<'a> Chooser<'a> {
  pub fn replay(prefix: &'a [u32]) -> Chooser<'a> {
    Chooser { prefix, trace: Vec::new(), labels: Vec::new() }
  }
  /// A decision with `n` alternatives; 0 is the default.
  pub fn choose(&mut self, label: &'static str, n: usize) -> usize {
    assert!(n >= 1, "choice point {label} with no alternative");
    let i = self.trace.len();
    let c = if i < self.prefix.len() {
      let c = self.prefix[i];
      if c as usize >= n {
        // Divergence while replaying a prefix: the body is not deterministic. A machinery error, never a verdict:
        // it is counted (the run ends with exit 2 unless a violation was found elsewhere that replays identically
        // on its own), this execution goes on with the default alternative and nothing it finds is believed
        // unless it reproduces.
        note_divergence(format!("replay divergence at point {i} ({label}): choice {c} of {n}"));
        0
      } else {
        c
      }
    } else {
      0
    };
    self.trace.push((c, n as u32));
    self.labels.push(label);
    c as usize
  }
  pub fn flag(&mut self, label: &'static str) -> bool {
    self.choose(label, 2) == 1
  }
  pub fn pick<'b, T>(&mut self, label: &'static str, xs: &'b [T]) -> &'b T {
    &xs[self.choose(label, xs.len())]
  }
  /// The choice sequence so far (a replayable case: later points default to 0).
  pub fn seq(&self) -> Vec<u32> {
    self.trace.iter().map(|p| p.0).collect()
  }
  pub fn labelled(&self) -> Vec<String> {
    self.trace.iter().zip(&self.labels).map(|((c, n), l)| format!("{l}={c}/{n}")).collect()
  }
  pub fn deviations(&self) -> usize {
    self.trace.iter().filter(|p| p.0 != 0).count()
  }
}

#[derive(Default, Debug, Clone)]
pub struct ExploreStats {
  /// complete executions of the body (leaves of the choice tree)
  pub executions: u64,
  /// choice-tree nodes (root + one per choice point first met)
  pub states: u64,
  /// choice-tree edges taken
  pub transitions: u64,
  pub max_depth: u64,
  /// executions per deviation count 0..=8
  pub by_deviation: Vec<u64>,
  /// true iff no alternative was cut by the deviation bound
  pub exhaustive: bool,
}

struct Shared {
  execs: AtomicU64,
  states: AtomicU64,
  max_depth: AtomicU64,
  cut: AtomicU64,
  by_dev: [AtomicU64; 9],
}

fn go<'s, F>(prefix: Vec<u32>, bound: Option<u32>, body: &'s F, sh: &'s Shared, scope: &rayon::Scope<'s>)
where
  F: Fn(&mut Chooser) + Sync,
{
  let mut ch = Chooser::replay(&prefix);
  body(&mut ch);
  let trace = std::mem::take(&mut ch.trace);
  drop(ch);
  if trace.len() < prefix.len() {
    note_divergence(format!("replay divergence: body met {} points, prefix has {}", trace.len(), prefix.len()));
    return;
  }
  let dev = prefix.iter().filter(|c| **c != 0).count() as u32;
  sh.execs.fetch_add(1, Ordering::Relaxed);
  sh.by_dev[(dev as usize).min(8)].fetch_add(1, Ordering::Relaxed);
  sh.states.fetch_add((trace.len() - prefix.len()) as u64 + if prefix.is_empty() { 1 } else { 0 }, Ordering::Relaxed);
  sh.max_depth.fetch_max(trace.len() as u64, Ordering::Relaxed);
  for i in prefix.len()..trace.len() {
    let n = trace[i].1;
    if n <= 1 {
      continue;
    }
    if let Some(b) = bound {
      if dev + 1 > b {
        sh.cut.fetch_add((n - 1) as u64, Ordering::Relaxed);
        continue;
      }
    }
    for alt in 1..n {
      let mut child: Vec<u32> = trace[..i].iter().map(|p| p.0).collect();
      child.push(alt);
      scope.spawn(move |s| go(child, bound, body, sh, s));
    }
  }
}

/// Explore every choice sequence with at most `bound` deviations.
pub fn explore<F>(bound: Option<u32>, body: F) -> ExploreStats
where
  F: Fn(&mut Chooser) + Sync,
{
  let sh = Shared {
    execs: AtomicU64::new(0),
    states: AtomicU64::new(0),
    max_depth: AtomicU64::new(0),
    cut: AtomicU64::new(0),
    by_dev: Default::default(),
  };
  rayon::scope(|s| go(Vec::new(), bound, &body, &sh, s));
  let executions = sh.execs.load(Ordering::Relaxed);
  let states = sh.states.load(Ordering::Relaxed);
  ExploreStats {
    executions,
    states,
    // every node except the root has exactly one incoming edge; each execution additionally walks to a leaf
    transitions: states.saturating_sub(1) + executions,
    max_depth: sh.max_depth.load(Ordering::Relaxed),
    by_deviation: sh.by_dev.iter().map(|a| a.load(Ordering::Relaxed)).collect(),
    exhaustive: sh.cut.load(Ordering::Relaxed) == 0,
  }
}

/// Explore and account the result in the context (bounds 0..=bound are covered by one run since
/// executions are classified by deviation count).
pub fn explore_into<F>(ctx: &crate::Ctx, part: &str, bound: Option<u32>, body: F) -> ExploreStats
where
  F: Fn(&mut Chooser) + Sync,
{
  let st = explore(bound, body);
  ctx.add_states(st.states);
  ctx.add_transitions(st.transitions);
  ctx.add_traces(st.executions);
  ctx.add_evals(st.executions);
  if !st.exhaustive {
    ctx.cap_hit(&format!("{part}: deviation bound {bound:?} cut alternatives (complete up to that bound)"));
  }
  ctx.part(
    part,
    serde_json::json!({"engine":"E1 choice DFS","deviation_bound": bound, "executions": st.executions, "choice_tree_nodes": st.states,
      "edges": st.transitions, "max_depth": st.max_depth, "executions_by_deviation": st.by_deviation, "whole_tree": st.exhaustive}),
  );
  st
}
